/-
The `DrainWaker` latch and the `DoubleWaker` (C06, the "task polling a returned future" context), as invariants of every
reachable state: a latch holds a waker exactly while it is armed (`WillWakeWithWaker`), so a wake-up that arrives before the
drain has armed it is remembered as `Woken` and the waker handed to `wake_with` is fired at once, one that arrives after
fires the stored waker — and either way the waker is taken out, so it is fired at most once per arming.
-/
import DesyncModel.Inv.WakeStep
import DesyncModel.Inv.WakeReach

namespace Desync
open Gen

@[simp] theorem latches_newJob (s : State) (q : Nat) (k : JobKind) : (s.newJob q k).1.latches = s.latches := rfl
@[simp] theorem latches_dequeue (s : State) (q a : Nat) : (s.dequeue q a).1.latches = s.latches := by
  unfold State.dequeue
  split
  · split
    · split
      · simp
      · rfl
    · rfl
  · rfl


/-- a latch holds a waker exactly while it is armed -/
structure LatchInv (s : State) : Prop where
  ok : ∀ (l : Nat) (st : Latch) (w : Option Waker), s.latches[l]? = some (st, w) → (w.isSome = true ↔ st = .willWake)

theorem LatchInv.same {s X : State} (h : LatchInv s) (e : X.latches = s.latches) : LatchInv X := ⟨by rw [e]; exact h.ok⟩

theorem LatchInv.set {s X : State} (h : LatchInv s) (l0 : Nat) (st0 : Latch) (w0 : Option Waker) (hok : w0.isSome = true ↔ st0 = .willWake)
    (e : X.latches = s.latches.set l0 (st0, w0)) : LatchInv X := by
  refine ⟨?_⟩
  intro l st w hl
  rw [e, List.getElem?_set] at hl
  split at hl
  · split at hl
    · cases hl; exact hok
    · cases hl
  · exact h.ok l st w hl

theorem LatchInv.append {s X : State} (h : LatchInv s) (e : X.latches = s.latches ++ [(.notWoken, none)]) : LatchInv X := by
  refine ⟨?_⟩
  intro l st w hl
  rw [e] at hl
  by_cases hlt : l < s.latches.length
  · rw [List.getElem?_append_left hlt] at hl; exact h.ok l st w hl
  · by_cases he : l = s.latches.length
    · subst he
      simp at hl
      obtain ⟨rfl, rfl⟩ := hl
      simp
    · have : (s.latches ++ [((Latch.notWoken, none) : Latch × Option Waker)])[l]? = none := by simp; omega
      rw [this] at hl; cases hl

theorem lt_lwCs {s s' : State} {a : Nat} {o : Obs} (h : LatchInv s)
    (act : Act) (ha : s.acts[a]? = some act) (hc : act.child = none) (l : Nat) (k : Pc)
    (hpc : act.pc = .lwCs l k) (hs : stepAct s a = some (s', o)) : LatchInv s' := by
  wk_open
  split at hs
  · simp at hs
  · next st w hl =>
    have hinv := h.ok l st w hl
    try dsimp only at hs
    repeat' split at hs
    all_goals (try (simp at hs; done))
    all_goals (simp only [Option.some.injEq, Prod.mk.injEq] at hs; obtain ⟨rfl, _⟩ := hs)
    all_goals (
      apply LatchInv.set h l
      case e => simp only [latches_goto]; rfl
      case hok => cases st <;> simp_all [latchWake])

theorem lt_dqWakeWith {s s' : State} {a : Nat} {o : Obs} (h : LatchInv s)
    (act : Act) (ha : s.acts[a]? = some act) (hc : act.child = none) (f l : Nat) (w : Waker) (k : Pc)
    (hpc : act.pc = .dqWakeWith f l w k) (hs : stepAct s a = some (s', o)) : LatchInv s' := by
  wk_open
  split at hs
  · simp at hs
  · next st w0 hl =>
    try dsimp only at hs
    split at hs
    all_goals (simp only [Option.some.injEq, Prod.mk.injEq] at hs; obtain ⟨rfl, _⟩ := hs)
    all_goals (
      apply LatchInv.set h l
      case e => simp only [latches_goto]; rfl
      case hok => cases st <;> simp_all [latchWakeWith])

theorem lt_dqDequeue {s s' : State} {a : Nat} {o : Obs} (h : LatchInv s)
    (act : Act) (ha : s.acts[a]? = some act) (hc : act.child = none) (f q : Nat)
    (hpc : act.pc = .dqDequeue f q) (hs : stepAct s a = some (s', o)) : LatchInv s' := by
  wk_open
  try dsimp only at hs
  split at hs
  · wk_fin
    exact LatchInv.append h (by simp)
  · wk_fin
    exact LatchInv.same h (by simp)

set_option maxHeartbeats 4000000 in
set_option maxRecDepth 8000 in
theorem latchInv_stepAct {s s' : State} {a : Nat} {o : Obs} (h : LatchInv s) (hs : stepAct s a = some (s', o)) : LatchInv s' := by
  have hs0 := hs
  unfold stepAct at hs
  split at hs
  · simp at hs
  next act ha =>
  split at hs
  · simp at hs
  next hchild =>
  have hc : act.child = none := by
    cases hcc : act.child <;> simp_all
  split at hs
  all_goals (try (simp at hs; done))
  all_goals (try (first
      | exact lt_lwCs h act ha hc _ _ (by assumption) hs0
      | exact lt_dqWakeWith h act ha hc _ _ _ _ (by assumption) hs0
      | exact lt_dqDequeue h act ha hc _ _ (by assumption) hs0))
  all_goals (try dsimp only at hs)
  all_goals (repeat' split at hs)
  all_goals (try (simp at hs; done))
  all_goals (try (simp only [Option.some.injEq, Prod.mk.injEq] at hs; obtain ⟨rfl, _⟩ := hs))
  all_goals (refine LatchInv.same h ?_)
  all_goals (first
      | rfl
      | (simp only [latches_goto, latches_setAct, latches_setQ, latches_setJob, latches_setHolder, latches_setPThr, latches_setFut, latches_setGate,
          latches_setSf, latches_takeReady, latches_dropReady, latches_newJob, latches_setJobPh, latches_pushFront, latches_pushBack,
          latches_setQState, latches_setWoken, latches_notify, latches_dequeue]; done)
      | (simp only [latches_goto, latches_setAct, latches_setQ, latches_setJob, latches_setHolder, latches_setPThr, latches_setFut, latches_setGate,
          latches_setSf, latches_takeReady, latches_dropReady, latches_newJob, latches_setJobPh, latches_pushFront, latches_pushBack,
          latches_setQState, latches_setWoken, latches_notify, latches_dequeue]; rfl)
      | skip)

theorem latches_addAct (s0 : State) (t : Nat) (parent : Option Nat) (pc : Pc) (once : Bool) : (addAct s0 t parent pc once).1.latches = s0.latches := by
  unfold addAct
  cases parent with
  | none => rfl
  | some p => simp only; split <;> rfl

theorem latches_invoke {s s' : State} {t a : Nat} {parent : Option Nat} {c : Call} (hs : invoke s t parent c = some (s', a)) : s'.latches = s.latches := by
  unfold invoke at hs
  cases c <;> simp only at hs
  all_goals (repeat' split at hs)
  all_goals (try (simp at hs; done))
  all_goals (
    have hs' := congrArg Prod.fst (Option.some.inj hs)
    simp only at hs'
    subst hs'
    rw [latches_addAct]
    try (first | rfl | (split <;> (try split) <;> rfl)))

theorem latches_retStep {s s' : State} {a r : Nat} (hs : retStep s a = some (s', r)) : s'.latches = s.latches := by
  unfold retStep at hs
  split at hs
  · split at hs
    · obtain ⟨rfl, _⟩ := Prod.mk.inj (Option.some.inj hs)
      split
      · split <;> rfl
      · rfl
    · simp at hs
  · simp at hs

/-- **The latch invariant holds in every reachable state** (every call, the task-context ones included). -/
theorem latchInv_reachable {s : State} (hr : Reachable s) : LatchInv s := by
  induction hr with
  | init nq ng max => exact ⟨by intro l st w hl; simp [initState] at hl⟩
  | initP ps ng max => exact ⟨by intro l st w hl; simp [initStateP, initState] at hl⟩
  | step l hprev hstep ih =>
    cases l with
    | act a =>
      simp only [next, Option.map_eq_some_iff] at hstep
      obtain ⟨⟨s1, o⟩, hs, rfl⟩ := hstep
      exact latchInv_stepAct ih hs
    | invoke t parent c =>
      simp only [next] at hstep
      split at hstep
      · simp only [Option.map_eq_some_iff] at hstep
        obtain ⟨⟨s1, a⟩, hs, rfl⟩ := hstep
        exact ih.same (latches_invoke hs)
      · simp at hstep
    | bodyEnd a =>
      simp only [next, Option.map_eq_some_iff] at hstep
      obtain ⟨⟨s1, o⟩, hs, rfl⟩ := hstep
      unfold bodyEnd at hs
      repeat' split at hs
      all_goals (try (simp at hs; done))
      all_goals (obtain ⟨rfl, _⟩ := Prod.mk.inj (Option.some.inj hs); exact ih.same (by simp))
    | ret a =>
      simp only [next, Option.map_eq_some_iff] at hstep
      obtain ⟨⟨s1, r⟩, hs, rfl⟩ := hstep
      exact ih.same (latches_retStep hs)
    | spuriousUnpark a =>
      simp only [next, Option.map_eq_some_iff] at hstep
      obtain ⟨⟨s1, o⟩, hs, rfl⟩ := hstep
      unfold spuriousUnpark at hs
      repeat' split at hs
      all_goals (try (simp at hs; done))
      all_goals (obtain ⟨rfl, _⟩ := Prod.mk.inj (Option.some.inj hs); exact ih.same (by simp))
    | spuriousPoll a =>
      simp only [next] at hstep
      unfold spuriousPoll at hstep
      repeat' split at hstep
      all_goals (try (simp at hstep; done))
      all_goals (cases (Option.some.inj hstep); exact ih.same (by simp))

end Desync
