/-
SigInv is preserved by every internal step.
-/
import DesyncModel.Inv.Sig
namespace Desync
open Gen

theorem SigInv.of_eq {s X : State} (h : SigInv s) (hpc : ∀ b, X.pcAt b = s.pcAt b) (hq : ∀ i, X.qjobs i = s.qjobs i)
    (hg : ∀ i, X.jobSig i = s.jobSig i) : SigInv X :=
  SigInv.step h (fun i hi => by rw [hg] at hi; exact hi) (fun q l' j hl hm => Or.inr ⟨l', by rw [hq] at hl; exact hl, hm⟩)
    (fun b j q hr => Or.inr ⟨by rw [hpc] at hr; exact hr, fun hp => by rw [hpc]; exact hp⟩)

theorem SigInv.congr {X Y : State} (h : SigInv Y) (hA : X.acts = Y.acts) (hJ : X.jobs = Y.jobs) (hQ : X.qs = Y.qs) : SigInv X :=
  SigInv.of_eq h (fun b => by simp only [State.pcAt, hA]) (fun i => by simp only [State.qjobs, hQ]) (fun i => by simp only [State.jobSig, hJ])

theorem SigInv.immediate {s : State} {a q : Nat} {b : Body} {st : QState} {v : JobQ} (h : SigInv s) (hv : s.qs[q]? = some v) :
    SigInv (((({ (s.setQ q { v with state := st }) with jobs := (s.setQ q { v with state := st }).jobs ++ [⟨q, .immediate a b, .held a, true, false, none, false⟩] } : State).setHolder q (some a)).goto a
      (.begin b (.siIdle q (s.setQ q { v with state := st }).jobs.length)))) := by
  refine SigInv.new_job (q := q) h (fun c => rfl) (fun i => ?_) (fun q' l' j' hl hm => Or.inr ⟨l', ?_, hm⟩) (Or.inr (Or.inl rfl))
  · rw [jobSig_setHolder]
    exact jobSig_append (s := s) (nj := ⟨q, .immediate a b, .held a, true, false, none, false⟩) rfl rfl i
  · rw [qjobs_setHolder] at hl
    rw [← qjobs_setQ_state hv st v.waiters q']
    exact hl

theorem SigInv.append_act {s X : State} {n : Act} (h : SigInv s) (hA : X.acts = s.acts ++ [n]) (hn : n.pc.runningQ = none)
    (hJ : X.jobs = s.jobs) (hQ : X.qs = s.qs) : SigInv X := by
  refine SigInv.step h (fun i hi => by simpa only [State.jobSig, hJ] using hi)
    (fun q l' j hl hm => Or.inr ⟨l', by simpa only [State.qjobs, hQ] using hl, hm⟩) ?_
  intro b j q hr
  simp only [State.pcAt, hA] at hr ⊢
  by_cases hlt : b < s.acts.length
  · rw [List.getElem?_append_left hlt] at hr ⊢
    exact Or.inr ⟨hr, id⟩
  · by_cases hbe : b = s.acts.length
    · subst hbe; simp [hn] at hr
    · have h1 : (s.acts ++ [n])[b]? = none := by simp; omega
      rw [h1] at hr; simp [Pc.runningQ] at hr

/-- the signal step: the flag is raised by the activity that has the job in hand, which moves past the signal -/
theorem SigInv.raise {s X : State} {a j q : Nat} {pc' : Pc} (hf : FullInv s) (h : SigInv s)
    (hold : (s.pcAt a).runningQ = some (j, q))
    (hpc : ∀ b, X.pcAt b = s.pcAt b) (hq : ∀ i, X.qjobs i = s.qjobs i)
    (hg : ∀ i, X.jobSig i = if i = j then true else s.jobSig i)
    (hnew : pc'.runningQ = some (j, q)) (hpost : pc'.postSig = true) : SigInv (X.goto a pc') := by
  have hja := hf.run1 a j q hold
  have hltX : a < X.acts.length := by
    by_cases hl : a < X.acts.length
    · exact hl
    · exfalso
      have : X.pcAt a = .dead := by simp [State.pcAt, List.getElem?_eq_none (Nat.le_of_not_lt hl)]
      rw [hpc] at this; rw [this] at hold; simp [Pc.runningQ] at hold
  refine ⟨?_, ?_⟩
  · intro b j' q' hr hs
    by_cases hb : b = a
    · subst hb
      have e : (X.goto b pc').pcAt b = pc' := by rw [pcAt_goto]; simp [hltX]
      rw [e]; exact hpost
    · have e : (X.goto a pc').pcAt b = X.pcAt b := by
        rw [pcAt_goto]; split
        · next hab => exact absurd hab.1.symm hb
        · rfl
      rw [e, hpc] at hr ⊢
      rw [jobSig_goto, hg] at hs
      split at hs
      · next ej =>
        subst ej
        have hjb := hf.run1 b j' q' hr
        rw [hja] at hjb
        simp only [Option.some.injEq, Prod.mk.injEq, Phase.held.injEq] at hjb
        exact absurd hjb.1.symm hb
      · exact h.holders b j' q' hr hs
  · intro q' l j' hl hm
    rw [qjobs_goto, hq] at hl
    rw [jobSig_goto, hg]
    split
    · next ej =>
      subst ej
      -- the job in hand is not in any list
      have hjq := hf.queued q' l j' hl hm
      rw [hja] at hjq; simp at hjq
    · exact h.queued q' l j' hl hm


/-! ### per-pc cases -/

theorem g_dequeue {s s' : State} {a : Nat} {o : Obs} (hw : WfInv s) (h : SigInv s) (act : Act) (ha : s.acts[a]? = some act) (hc : act.child = none)
    (hs : stepAct s a = some (s', o))
    (hpc : (∃ q k, act.pc = .rjDequeue q k) ∨ (∃ p q, act.pc = .pdDequeue p q) ∨ (∃ f q, act.pc = .dqDequeue f q)) : SigInv s' := by
  have hpca := pcAt_of ha
  have hwk := hw a
  rcases hpc with ⟨q, k, hpc⟩ | ⟨p, q, hpc⟩ | ⟨f, q, hpc⟩
  · rw [hpca, hpc] at hwk
    simp only [Pc.callerOk] at hwk
    unfold stepAct at hs
    simp only [ha, hc, hpc, Option.isSome_none, Bool.false_eq_true, ↓reduceIte] at hs
    cases hd : (s.dequeue q a).2 with
    | some j =>
      simp only [hd, Option.some.injEq, Prod.mk.injEq] at hs; obtain ⟨rfl, _⟩ := hs
      exact SigInv.dequeue_take h hd (by simp [Pc.runningQ, Ctx.q])
    | none =>
      simp only [hd, Option.some.injEq, Prod.mk.injEq] at hs; obtain ⟨rfl, _⟩ := hs
      exact SigInv.dequeue_none h hd (Or.inl (plainFor_running hwk))
  · unfold stepAct at hs
    simp only [ha, hc, hpc, Option.isSome_none, Bool.false_eq_true, ↓reduceIte] at hs
    cases hd : (s.dequeue q a).2 with
    | some j =>
      simp only [hd, Option.some.injEq, Prod.mk.injEq] at hs; obtain ⟨rfl, _⟩ := hs
      exact SigInv.dequeue_take h hd (by simp [Pc.runningQ, Ctx.q])
    | none =>
      simp only [hd, Option.some.injEq, Prod.mk.injEq] at hs; obtain ⟨rfl, _⟩ := hs
      exact SigInv.dequeue_none h hd (Or.inl rfl)
  · unfold stepAct at hs
    simp only [ha, hc, hpc, Option.isSome_none, Bool.false_eq_true, ↓reduceIte] at hs
    cases hd : (s.dequeue q a).2 with
    | some j =>
      simp only [hd, Option.some.injEq, Prod.mk.injEq] at hs; obtain ⟨rfl, _⟩ := hs
      have h1 := SigInv.dequeue_take (pc' := .jobStart j (.task f (s.dequeue q a).1.latches.length q) .dead) h hd (by simp [Pc.runningQ, Ctx.q])
      exact SigInv.congr h1 (goto_congr _ _ rfl) (by rw [jobs_goto', jobs_goto']) (by rw [qs_goto', qs_goto'])
    | none =>
      simp only [hd, Option.some.injEq, Prod.mk.injEq] at hs; obtain ⟨rfl, _⟩ := hs
      exact SigInv.dequeue_none h hd (Or.inl rfl)

theorem g_requeue {s s' : State} {a : Nat} {o : Obs} (h : SigInv s) (act : Act) (ha : s.acts[a]? = some act) (hc : act.child = none)
    (hs : stepAct s a = some (s', o))
    (hpc : (∃ p q j, act.pc = .pdRequeue p q j) ∨ (∃ f j l q, act.pc = .dqRequeue f j l q)) : SigInv s' := by
  have hpca := pcAt_of ha
  rcases hpc with ⟨p, q, j, hpc⟩ | ⟨f, j, l, q, hpc⟩
  all_goals (
    unfold stepAct at hs
    simp only [ha, hc, hpc, Option.isSome_none, Bool.false_eq_true, ↓reduceIte] at hs
    simp only [Option.some.injEq, Prod.mk.injEq] at hs; obtain ⟨rfl, _⟩ := hs
    exact SigInv.requeue_front h (by rw [hpca, hpc]; rfl) (by rw [hpca, hpc]; rfl) rfl)

theorem qjobs_append_new {s : State} {q : Nat} {v : JobQ} (hv : s.qs[q]? = some v) (X : State) (hX : ∀ i, X.qjobs i = if i = q then some (v.jobs ++ [s.jobs.length]) else s.qjobs i) :
    ∀ q' l' j', X.qjobs q' = some l' → j' ∈ l' → j' = s.jobs.length ∨ ∃ l, s.qjobs q' = some l ∧ j' ∈ l := by
  intro q' l' j' hl hm
  rw [hX] at hl
  split at hl
  · next e =>
    subst e
    simp only [Option.some.injEq] at hl
    subst hl
    rcases List.mem_append.mp hm with hm0 | hm0
    · exact Or.inr ⟨v.jobs, qjobs_of hv, hm0⟩
    · exact Or.inl (by simpa using hm0)
  · exact Or.inr ⟨l', hl, hm⟩

theorem g_dsPush {s s' : State} {a : Nat} {o : Obs} (h : SigInv s) (act : Act) (ha : s.acts[a]? = some act) (hc : act.child = none)
    (q : Nat) (kind : JobKind) (hpc : act.pc = .dsPush q kind) (hs : stepAct s a = some (s', o)) : SigInv s' := by
  unfold stepAct at hs
  simp only [ha, hc, hpc, Option.isSome_none, Bool.false_eq_true, ↓reduceIte] at hs
  split at hs
  · simp at hs
  next v hv =>
  have hv' : (s.newJob q kind).1.qs[q]? = some v := hv
  repeat' split at hs
  all_goals (simp only [Option.some.injEq, Prod.mk.injEq] at hs; obtain ⟨rfl, _⟩ := hs)
  all_goals (refine SigInv.new_job (q := q) h (fun c => rfl) (fun i => by simp) ?_ (Or.inl rfl))
  all_goals (refine qjobs_append_new hv _ ?_; intro i; rw [qjobs_setQ_of hv']; simp)

theorem g_sbPush {s s' : State} {a : Nat} {o : Obs} (h : SigInv s) (act : Act) (ha : s.acts[a]? = some act) (hc : act.child = none)
    (q : Nat) (b : Body) (hpc : act.pc = .sbPush q b) (hs : stepAct s a = some (s', o)) : SigInv s' := by
  unfold stepAct at hs
  simp only [ha, hc, hpc, Option.isSome_none, Bool.false_eq_true, ↓reduceIte] at hs
  split at hs
  · simp at hs
  next v hv =>
  have hv' : (s.newJob q (.erasedBg a b)).1.qs[q]? = some v := hv
  repeat' split at hs
  all_goals (simp only [Option.some.injEq, Prod.mk.injEq] at hs; obtain ⟨rfl, _⟩ := hs)
  all_goals (refine SigInv.new_job (q := q) h (fun c => rfl) (fun i => by simp) ?_ (Or.inl rfl))
  all_goals (refine qjobs_append_new hv _ ?_; intro i; rw [qjobs_setQ_of hv']; simp)

theorem g_sdPush {s s' : State} {a : Nat} {o : Obs} (hh : HolderInv s) (h : SigInv s) (act : Act) (ha : s.acts[a]? = some act) (hc : act.child = none)
    (q : Nat) (b : Body) (hpc : act.pc = .sdPush q b) (hs : stepAct s a = some (s', o)) : SigInv s' := by
  have hpca := pcAt_of ha
  unfold stepAct at hs
  simp only [ha, hc, hpc, Option.isSome_none, Bool.false_eq_true, ↓reduceIte] at hs
  simp only [Option.some.injEq, Prod.mk.injEq] at hs; obtain ⟨rfl, _⟩ := hs
  have hholds : (s.pcAt a).holds q = true := by rw [hpca, hpc]; simp [Pc.holds]
  have hho := (hh.iff a q).mp hholds
  have hqlt : q < s.qs.length := by
    have := (List.getElem?_eq_some_iff.mp hho).1; rw [hh.len] at this; exact this
  obtain ⟨v, hv⟩ : ∃ v, s.qs[q]? = some v := ⟨s.qs[q], List.getElem?_eq_getElem hqlt⟩
  have hv' : (s.newJob q (.erasedDrain a b)).1.qs[q]? = some v := hv
  refine SigInv.new_job (q := q) h (fun c => by simp) (fun i => by simp) ?_ (Or.inl rfl)
  refine qjobs_append_new hv _ ?_
  intro i
  unfold State.pushBack
  rw [hv']
  simp only [newJob_snd]
  rw [qjobs_setQ_of hv']; simp

theorem g_decide {s s' : State} {a : Nat} {o : Obs} (h : SigInv s) (act : Act) (ha : s.acts[a]? = some act) (hc : act.child = none)
    (hs : stepAct s a = some (s', o))
    (hpc : (∃ q b, act.pc = .syDecide q b) ∨ (∃ q b, act.pc = .tsDecide q b)) : SigInv s' := by
  rcases hpc with ⟨q, b, hpc⟩ | ⟨q, b, hpc⟩
  all_goals (
    unfold stepAct at hs
    simp only [ha, hc, hpc, Option.isSome_none, Bool.false_eq_true, ↓reduceIte] at hs
    cases hv : s.qs[q]? with
    | none => simp [hv] at hs
    | some v =>
      simp only [hv] at hs
      repeat' split at hs
      all_goals (simp only [Option.some.injEq, Prod.mk.injEq] at hs; obtain ⟨rfl, _⟩ := hs)
      all_goals (first
        | exact SigInv.immediate h hv
        | (refine SigInv.frame h (fun c => by simp) (fun i => by rw [qjobs_setHolder]; exact qjobs_setQ_state hv _ _ i) (fun i => by simp) (Or.inl rfl))
        | (refine SigInv.frame h (fun c => by simp) (fun i => qjobs_setQ_state hv _ _ i) (fun i => by simp) (Or.inl rfl))
        | (refine SigInv.frame_setAct h (fun c => by simp) (fun i => qjobs_setQ_state hv _ _ i) (fun i => by simp) (Or.inl rfl))))

theorem g_jobSignal {s s' : State} {a : Nat} {o : Obs} (hf : FullInv s) (h : SigInv s) (act : Act) (ha : s.acts[a]? = some act) (hc : act.child = none)
    (j : Nat) (c : Ctx) (k : Pc) (hpc : act.pc = .jobSignal j c k) (hs : stepAct s a = some (s', o)) : SigInv s' := by
  have hpca := pcAt_of ha
  have hold : (s.pcAt a).runningQ = some (j, c.q) := by rw [hpca, hpc]; rfl
  unfold stepAct at hs
  simp only [ha, hc, hpc, Option.isSome_none, Bool.false_eq_true, ↓reduceIte] at hs
  cases hjb : s.jobs[j]? with
  | none => simp [hjb] at hs
  | some jb =>
    simp only [hjb] at hs
    repeat' split at hs
    all_goals (try (simp at hs; done))
    all_goals (simp only [Option.some.injEq, Prod.mk.injEq] at hs; obtain ⟨rfl, _⟩ := hs)
    all_goals (
      refine SigInv.raise hf h hold (fun b => by simp) (fun i => by simp) (fun i => ?_) (by simp [Pc.runningQ]) (by simp [Pc.postSig])
      rw [jobSig_setFut, jobSig_setJob_of hjb])

theorem g_jobDrop {s s' : State} {a : Nat} {o : Obs} (hw : WfInv s) (h : SigInv s) (act : Act) (ha : s.acts[a]? = some act) (hc : act.child = none)
    (hs : stepAct s a = some (s', o))
    (hpc : (∃ j c k, act.pc = .jobDrop j c k) ∨ (∃ j c k, act.pc = .jobDropNotify j c k)) : SigInv s' := by
  have hpca := pcAt_of ha
  have hwk := hw a
  rcases hpc with ⟨j, c, k, hpc⟩ | ⟨j, c, k, hpc⟩
  all_goals (
    rw [hpca, hpc] at hwk
    simp only [Pc.callerOk] at hwk
    unfold stepAct at hs
    simp only [ha, hc, hpc, Option.isSome_none, Bool.false_eq_true, ↓reduceIte] at hs
    cases hjb : s.jobs[j]? with
    | none => simp [hjb] at hs
    | some jb =>
      simp only [hjb] at hs
      repeat' split at hs
      all_goals (try (simp at hs; done))
      all_goals (simp only [Option.some.injEq, Prod.mk.injEq] at hs; obtain ⟨rfl, _⟩ := hs)
      all_goals (
        refine SigInv.frame h (fun b => by first | rfl | simp) (fun i => by first | rfl | simp) (fun i => ?_) (Or.inl (by first | rfl | exact ctxReady_running hwk))
        first
          | rfl
          | (rw [jobSig_notify])
          | exact jobSig_notify _ _ i
          | exact jobSig_setJob_keep (v := { jb with ph := .done, ended := true }) hjb rfl i
          | (show (s.setJob j { jb with ph := .done, ended := true }).jobSig i = s.jobSig i
             exact jobSig_setJob_keep (v := { jb with ph := .done, ended := true }) hjb rfl i)))

theorem SigInv.spawn_goto {s X : State} {a : Nat} {n : Act} {pc' : Pc} (h : SigInv s) (hA : X.acts = s.acts ++ [n]) (hn : n.pc.runningQ = none)
    (hJ : X.jobs = s.jobs) (hQ : X.qs = s.qs) (hlt : a < s.acts.length)
    (hrun : pc'.runningQ = none ∨ (pc'.runningQ = (s.pcAt a).runningQ ∧ ((s.pcAt a).postSig = true → pc'.postSig = true))) : SigInv (X.goto a pc') := by
  have hX := SigInv.append_act h hA hn hJ hQ
  refine SigInv.frame hX (fun _ => rfl) (fun _ => rfl) (fun _ => rfl) ?_
  have e : X.pcAt a = s.pcAt a := by simp only [State.pcAt, hA, List.getElem?_append_left hlt]
  rw [e]; exact hrun

theorem g_stSpawn {s s' : State} {a : Nat} {o : Obs} (h : SigInv s) (act : Act) (ha : s.acts[a]? = some act) (hc : act.child = none)
    (m : Nat) (k : Pc) (hpc : act.pc = .stSpawn m k) (hs : stepAct s a = some (s', o)) : SigInv s' := by
  have hlt : a < s.acts.length := lt_of_getElem?_some ha
  have hpca := pcAt_of ha
  unfold stepAct at hs
  simp only [ha, hc, hpc, Option.isSome_none, Bool.false_eq_true, ↓reduceIte] at hs
  split at hs
  · simp at hs
  · split at hs
    · simp only [Option.some.injEq, Prod.mk.injEq] at hs; obtain ⟨rfl, _⟩ := hs
      exact SigInv.spawn_goto h rfl (by rfl) rfl rfl hlt (Or.inr ⟨by rw [hpca, hpc]; rfl, by rw [hpca, hpc]; exact id⟩)
    · simp only [Option.some.injEq, Prod.mk.injEq] at hs; obtain ⟨rfl, _⟩ := hs
      exact SigInv.frame h (fun c => rfl) (fun i => rfl) (fun i => rfl) (Or.inr ⟨by rw [hpca, hpc]; rfl, by rw [hpca, hpc]; exact id⟩)

theorem g_sbPrune {s s' : State} {a : Nat} {o : Obs} (h : SigInv s) (act : Act) (ha : s.acts[a]? = some act) (hc : act.child = none)
    (q : Nat) (hpc : act.pc = .sbPrune q) (hs : stepAct s a = some (s', o)) : SigInv s' := by
  unfold stepAct at hs
  simp only [ha, hc, hpc, Option.isSome_none, Bool.false_eq_true, ↓reduceIte] at hs
  split at hs
  · simp at hs
  next v hv =>
  simp only [Option.some.injEq, Prod.mk.injEq] at hs; obtain ⟨rfl, _⟩ := hs
  have h1 : SigInv (s.goto a Pc.ret) := SigInv.frame h (fun c => rfl) (fun i => rfl) (fun i => rfl) (Or.inl rfl)
  refine SigInv.of_eq h1 (fun b => rfl) ?_ (fun i => rfl)
  intro i
  have hv' : (s.goto a Pc.ret).qs[q]? = some v := by rw [qs_goto']; exact hv
  exact qjobs_setQ_state hv' _ _ i

theorem g_ptPop {s s' : State} {a : Nat} {o : Obs} (h : SigInv s) (act : Act) (ha : s.acts[a]? = some act) (hc : act.child = none)
    (p : Nat) (hpc : act.pc = .ptPop p) (hs : stepAct s a = some (s', o)) : SigInv s' := by
  unfold stepAct at hs
  simp only [ha, hc, hpc, Option.isSome_none, Bool.false_eq_true, ↓reduceIte] at hs
  repeat' split at hs
  all_goals (try (simp at hs; done))
  all_goals (simp only [Option.some.injEq, Prod.mk.injEq] at hs; obtain ⟨rfl, _⟩ := hs)
  all_goals (refine SigInv.frame h (fun c => rfl) ?_ (fun i => rfl) (Or.inl rfl))
  all_goals (first | (intro i; rfl) | (intro i; rw [qjobs_setHolder]; exact qjobs_setQ_state (s := { s with schedule := _ }) (by assumption) _ _ i) | (intro i; exact qjobs_setQ_state (s := { s with schedule := _ }) (by assumption) _ _ i))

set_option hygiene false in
macro "sig_side" : tactic => `(tactic| first
      | (intro b; (try simp only [pcAt_setQ, pcAt_setJob, pcAt_setHolder, pcAt_setWoken, pcAt_notify, pcAt_setPThr, pcAt_setFut, pcAt_setGate,
                             pcAt_takeReady, pcAt_dropReady, pcAt_setJobPh, pcAt_pushFront, pcAt_pushBack, pcAt_setQState, pcAt_dequeue]); first | done | rfl)
      | (intro i; (try simp only [qjobs_setJob, qjobs_setFut, qjobs_setGate, qjobs_setAct, qjobs_setSf, qjobs_setPThr, qjobs_setHolder, qjobs_takeReady,
                             qjobs_dropReady, qjobs_setWoken, qjobs_notify, qjobs_setQState, qjobs_setJobPh]);
           first | done | rfl | (apply qjobs_setQ_keep <;> first | assumption | rfl))
      | (intro i; (try simp only [jobSig_setQ, jobSig_setFut, jobSig_setGate, jobSig_setAct, jobSig_setSf, jobSig_setPThr, jobSig_setHolder, jobSig_takeReady,
                             jobSig_dropReady, jobSig_setWoken, jobSig_notify, jobSig_setQState, jobSig_pushBack, jobSig_pushFront, jobSig_setJobPh]);
           first | done | rfl | (apply jobSig_setJob_keep <;> first | assumption | rfl))
      | (rw [hpca, ‹act.pc = _›]; simp only [Pc.runningQ, Pc.postSig, runningQ_ctxPending, postSig_ctxPending, Ctx.q];
         first
         | (left; rfl)
         | (right; exact ⟨rfl, id⟩)
         | (right; exact ⟨rfl, fun h => by simp at h⟩)
         | (right; refine ⟨?_, fun h => by simp at h⟩; rename_i c _ _; cases c <;> rfl)
         | (right; refine ⟨?_, id⟩; rename_i c _ _; cases c <;> rfl)
         | simp))

set_option maxHeartbeats 4000000 in
set_option maxRecDepth 8000 in
theorem sigInv_stepAct {s s' : State} {a : Nat} {o : Obs} (hh : HolderInv s) (hw : WfInv s) (hf : FullInv s) (h : SigInv s)
    (hs : stepAct s a = some (s', o)) : SigInv s' := by
  have hs0 := hs
  unfold stepAct at hs
  split at hs
  · simp at hs
  next act ha =>
  split at hs
  · simp at hs
  next hchild =>
  have hlt : a < s.acts.length := lt_of_getElem?_some ha
  have hpca := pcAt_of ha
  have hc : act.child = none := by
    cases hcc : act.child <;> simp_all
  split at hs
  all_goals (try (simp at hs; done))
  all_goals (try (first
      | exact g_dequeue hw h act ha hc hs0 (Or.inl ⟨_, _, by assumption⟩)
      | exact g_dequeue hw h act ha hc hs0 (Or.inr (Or.inl ⟨_, _, by assumption⟩))
      | exact g_dequeue hw h act ha hc hs0 (Or.inr (Or.inr ⟨_, _, by assumption⟩))
      | exact g_requeue h act ha hc hs0 (Or.inl ⟨_, _, _, by assumption⟩)
      | exact g_requeue h act ha hc hs0 (Or.inr ⟨_, _, _, _, by assumption⟩)
      | exact g_jobDrop hw h act ha hc hs0 (Or.inl ⟨_, _, _, by assumption⟩)
      | exact g_jobDrop hw h act ha hc hs0 (Or.inr ⟨_, _, _, by assumption⟩)
      | exact g_jobSignal hf h act ha hc _ _ _ (by assumption) hs0
      | exact g_decide h act ha hc hs0 (Or.inl ⟨_, _, by assumption⟩)
      | exact g_decide h act ha hc hs0 (Or.inr ⟨_, _, by assumption⟩)
      | exact g_dsPush h act ha hc _ _ (by assumption) hs0
      | exact g_sdPush hh h act ha hc _ _ (by assumption) hs0
      | exact g_sbPush h act ha hc _ _ (by assumption) hs0
      | exact g_stSpawn h act ha hc _ _ (by assumption) hs0
      | exact g_sbPrune h act ha hc _ (by assumption) hs0
      | exact g_ptPop h act ha hc _ (by assumption) hs0))
  all_goals (try dsimp only at hs)
  all_goals (repeat' split at hs)
  all_goals (try (simp at hs; done))
  all_goals (try (simp only [Option.some.injEq, Prod.mk.injEq] at hs; obtain ⟨rfl, _⟩ := hs))
  all_goals (first
      | ((refine SigInv.frame h ?_ ?_ ?_ ?_) <;> sig_side)
      | ((refine SigInv.frame_setAct h ?_ ?_ ?_ ?_) <;> sig_side)
      | skip)

end Desync
