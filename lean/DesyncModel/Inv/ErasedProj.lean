/-
Projections read by the erased-job invariant (C14) and how the state setters act on them.
-/
import DesyncModel.Inv.JobProj

namespace Desync
open Gen

/-- owner and kind of a lifetime-erased job -/
def kOf (b : Job) : Option (Nat × Bool) :=
  match b.kind with
  | .erasedDrain o _ => some (o, false)
  | .erasedBg o _ => some (o, true)
  | _ => none

def State.jobK (s : State) (j : Nat) : Option (Nat × Bool) := (s.jobs[j]?).bind kOf
def State.jobD (s : State) (j : Nat) : Bool := match s.jobs[j]? with | some b => b.ph == .done | none => false

theorem jobK_of {s : State} {j : Nat} {b : Job} (h : s.jobs[j]? = some b) : s.jobK j = kOf b := by simp [State.jobK, h]
theorem jobD_of {s : State} {j : Nat} {b : Job} (h : s.jobs[j]? = some b) : s.jobD j = (b.ph == .done) := by simp [State.jobD, h]

/-- the erased job a `sync` call is waiting for: its program counter is inside the loop of sync_drain / sync_background -/
def Pc.awaited : Pc → Option Nat
  | .sdCheck _ j => some j
  | .sbLockReady _ j | .sbTest _ j | .sbClaim _ j | .sbClaimRel _ j _ | .sbRelReady _ j | .sbStealTest _ j
  | .sbStealIdle _ j | .sbWait _ j | .sbWaiting _ j => some j
  | .begin _ k | .body _ k | .unwinding k => k.awaited
  | .stReap k | .stScanLock k | .stScan _ k | .stScanHeld _ k | .stScanRel _ _ k
  | .stScanUnlock _ k | .stReadMax k | .stSpawn _ k | .stSpawnRel k => k.awaited
  | .rqCs _ k | .rqNotifyAcq _ _ _ k | .rqNotify _ _ _ k | .rqNotifyRel _ _ _ k | .rqPush _ k => k.awaited
  | .resumeSend _ k | .waking _ k | .openSend _ k | .wqCs _ k | .wtCs _ _ k | .wtUnpark _ k | .lwCs _ k | .dwCs _ k => k.awaited
  | .rjDequeue _ k | .rjPending _ _ k | .rjParkCheck _ _ k | .rjPark _ _ k | .rjParked _ _ k => k.awaited
  | .jobStart _ c k | .jobAwait _ c k | .jobBodyDone _ c k | .jobEnd _ c k | .jobSignal _ c k
  | .jobSigDrop _ c k | .jobDrop _ c k | .jobDropNotify _ c k | .suspSignal _ c k | .suspSigDrop _ c k =>
      (match c with | .caller _ => k.awaited | _ => none)
  | .pfPollRel _ next => next.awaited
  | .dqWakeWith _ _ _ k => k.awaited
  | .fdDrop _ k => k.awaited
  | _ => none

/-- the call has not created its erased job yet -/
def Pc.fresh : Pc → Bool
  | .syDecide _ _ | .sdPush _ _ | .sbReg _ _ | .sbPush _ _ | .fsTake _ | .fsTake2 _ => true
  | .begin _ k | .body _ k | .unwinding k => k.fresh
  | .stReap k | .stScanLock k | .stScan _ k | .stScanHeld _ k | .stScanRel _ _ k
  | .stScanUnlock _ k | .stReadMax k | .stSpawn _ k | .stSpawnRel k => k.fresh
  | .rqCs _ k | .rqNotifyAcq _ _ _ k | .rqNotify _ _ _ k | .rqNotifyRel _ _ _ k | .rqPush _ k => k.fresh
  | .resumeSend _ k | .waking _ k | .openSend _ k | .wqCs _ k | .wtCs _ _ k | .wtUnpark _ k | .lwCs _ k | .dwCs _ k => k.fresh
  | .rjDequeue _ k | .rjPending _ _ k | .rjParkCheck _ _ k | .rjPark _ _ k | .rjParked _ _ k => k.fresh
  | .jobStart _ c k | .jobAwait _ c k | .jobBodyDone _ c k | .jobEnd _ c k | .jobSignal _ c k
  | .jobSigDrop _ c k | .jobDrop _ c k | .jobDropNotify _ c k | .suspSignal _ c k | .suspSigDrop _ c k =>
      (match c with | .caller _ => k.fresh | _ => false)
  | .pfPollRel _ next => next.fresh
  | .dqWakeWith _ _ _ k => k.fresh
  | .fdDrop _ k => k.fresh
  | _ => false

@[simp] theorem awaited_ctxReady (k : Pc) (c : Ctx) : (ctxReady k c).awaited = (match c with | .caller _ => k.awaited | _ => none) := by
  cases c <;> simp [ctxReady, Pc.awaited]
@[simp] theorem awaited_ctxPending (j : Nat) (k : Pc) (c : Ctx) : (ctxPending j k c).awaited = (match c with | .caller _ => k.awaited | _ => none) := by
  cases c <;> simp [ctxPending, Pc.awaited]
@[simp] theorem fresh_ctxReady (k : Pc) (c : Ctx) : (ctxReady k c).fresh = (match c with | .caller _ => k.fresh | _ => false) := by
  cases c <;> simp [ctxReady, Pc.fresh]
@[simp] theorem fresh_ctxPending (j : Nat) (k : Pc) (c : Ctx) : (ctxPending j k c).fresh = (match c with | .caller _ => k.fresh | _ => false) := by
  cases c <;> simp [ctxPending, Pc.fresh]

@[simp] theorem jobK_setQ (s : State) (q : Nat) (v : JobQ) (i : Nat) : (s.setQ q v).jobK i = s.jobK i := rfl
@[simp] theorem jobK_setFut (s : State) (f : Nat) (v : Fut) (i : Nat) : (s.setFut f v).jobK i = s.jobK i := rfl
@[simp] theorem jobK_setGate (s : State) (g : Nat) (v : Gate) (i : Nat) : (s.setGate g v).jobK i = s.jobK i := rfl
@[simp] theorem jobK_setAct (s : State) (a : Nat) (v : Act) (i : Nat) : (s.setAct a v).jobK i = s.jobK i := rfl
@[simp] theorem jobK_setSf (s : State) (u : Nat) (v : SyncFut) (i : Nat) : (s.setSf u v).jobK i = s.jobK i := rfl
@[simp] theorem jobK_setPThr (s : State) (p : Nat) (v : PThr) (i : Nat) : (s.setPThr p v).jobK i = s.jobK i := rfl
@[simp] theorem jobK_setHolder (s : State) (q : Nat) (h : Option Nat) (i : Nat) : (s.setHolder q h).jobK i = s.jobK i := rfl
@[simp] theorem jobK_takeReady (s : State) (w a : Nat) (i : Nat) : (s.takeReady w a).jobK i = s.jobK i := rfl
@[simp] theorem jobK_dropReady (s : State) (w : Nat) (i : Nat) : (s.dropReady w).jobK i = s.jobK i := rfl
@[simp] theorem jobK_goto (s : State) (a : Nat) (pc : Pc) (i : Nat) : (s.goto a pc).jobK i = s.jobK i := by unfold State.goto; split <;> rfl
@[simp] theorem jobK_setWoken (s : State) (a : Nat) (b : Bool) (i : Nat) : (s.setWoken a b).jobK i = s.jobK i := by unfold State.setWoken; split <;> rfl
@[simp] theorem jobK_notify (s : State) (w : Nat) (i : Nat) : (s.notify w).jobK i = s.jobK i := by unfold State.notify; split <;> (try split) <;> rfl
@[simp] theorem jobK_setQState (s : State) (q : Nat) (st : QState) (i : Nat) : (s.setQState q st).jobK i = s.jobK i := by unfold State.setQState; split <;> rfl
@[simp] theorem jobK_pushBack (s : State) (q j : Nat) (i : Nat) : (s.pushBack q j).jobK i = s.jobK i := by unfold State.pushBack; split <;> rfl
@[simp] theorem jobK_pushFront (s : State) (q j : Nat) (i : Nat) : (s.pushFront q j).jobK i = s.jobK i := by unfold State.pushFront; split <;> rfl
@[simp] theorem jobD_setQ (s : State) (q : Nat) (v : JobQ) (i : Nat) : (s.setQ q v).jobD i = s.jobD i := rfl
@[simp] theorem jobD_setFut (s : State) (f : Nat) (v : Fut) (i : Nat) : (s.setFut f v).jobD i = s.jobD i := rfl
@[simp] theorem jobD_setGate (s : State) (g : Nat) (v : Gate) (i : Nat) : (s.setGate g v).jobD i = s.jobD i := rfl
@[simp] theorem jobD_setAct (s : State) (a : Nat) (v : Act) (i : Nat) : (s.setAct a v).jobD i = s.jobD i := rfl
@[simp] theorem jobD_setSf (s : State) (u : Nat) (v : SyncFut) (i : Nat) : (s.setSf u v).jobD i = s.jobD i := rfl
@[simp] theorem jobD_setPThr (s : State) (p : Nat) (v : PThr) (i : Nat) : (s.setPThr p v).jobD i = s.jobD i := rfl
@[simp] theorem jobD_setHolder (s : State) (q : Nat) (h : Option Nat) (i : Nat) : (s.setHolder q h).jobD i = s.jobD i := rfl
@[simp] theorem jobD_takeReady (s : State) (w a : Nat) (i : Nat) : (s.takeReady w a).jobD i = s.jobD i := rfl
@[simp] theorem jobD_dropReady (s : State) (w : Nat) (i : Nat) : (s.dropReady w).jobD i = s.jobD i := rfl
@[simp] theorem jobD_goto (s : State) (a : Nat) (pc : Pc) (i : Nat) : (s.goto a pc).jobD i = s.jobD i := by unfold State.goto; split <;> rfl
@[simp] theorem jobD_setWoken (s : State) (a : Nat) (b : Bool) (i : Nat) : (s.setWoken a b).jobD i = s.jobD i := by unfold State.setWoken; split <;> rfl
@[simp] theorem jobD_notify (s : State) (w : Nat) (i : Nat) : (s.notify w).jobD i = s.jobD i := by unfold State.notify; split <;> (try split) <;> rfl
@[simp] theorem jobD_setQState (s : State) (q : Nat) (st : QState) (i : Nat) : (s.setQState q st).jobD i = s.jobD i := by unfold State.setQState; split <;> rfl
@[simp] theorem jobD_pushBack (s : State) (q j : Nat) (i : Nat) : (s.pushBack q j).jobD i = s.jobD i := by unfold State.pushBack; split <;> rfl
@[simp] theorem jobD_pushFront (s : State) (q j : Nat) (i : Nat) : (s.pushFront q j).jobD i = s.jobD i := by unfold State.pushFront; split <;> rfl
@[simp] theorem isReady_setQ (s : State) (q : Nat) (v : JobQ) (i : Nat) : (s.setQ q v).isReady i = s.isReady i := rfl
@[simp] theorem isReady_setFut (s : State) (f : Nat) (v : Fut) (i : Nat) : (s.setFut f v).isReady i = s.isReady i := rfl
@[simp] theorem isReady_setGate (s : State) (g : Nat) (v : Gate) (i : Nat) : (s.setGate g v).isReady i = s.isReady i := rfl
@[simp] theorem isReady_setAct (s : State) (a : Nat) (v : Act) (i : Nat) : (s.setAct a v).isReady i = s.isReady i := rfl
@[simp] theorem isReady_setSf (s : State) (u : Nat) (v : SyncFut) (i : Nat) : (s.setSf u v).isReady i = s.isReady i := rfl
@[simp] theorem isReady_setPThr (s : State) (p : Nat) (v : PThr) (i : Nat) : (s.setPThr p v).isReady i = s.isReady i := rfl
@[simp] theorem isReady_setHolder (s : State) (q : Nat) (h : Option Nat) (i : Nat) : (s.setHolder q h).isReady i = s.isReady i := rfl
@[simp] theorem isReady_takeReady (s : State) (w a : Nat) (i : Nat) : (s.takeReady w a).isReady i = s.isReady i := rfl
@[simp] theorem isReady_dropReady (s : State) (w : Nat) (i : Nat) : (s.dropReady w).isReady i = s.isReady i := rfl
@[simp] theorem isReady_setJob (s : State) (j : Nat) (v : Job) (i : Nat) : (s.setJob j v).isReady i = s.isReady i := rfl
@[simp] theorem isReady_goto (s : State) (a : Nat) (pc : Pc) (i : Nat) : (s.goto a pc).isReady i = s.isReady i := by unfold State.goto; split <;> rfl
@[simp] theorem isReady_setWoken (s : State) (a : Nat) (b : Bool) (i : Nat) : (s.setWoken a b).isReady i = s.isReady i := by unfold State.setWoken; split <;> rfl
@[simp] theorem isReady_notify (s : State) (w : Nat) (i : Nat) : (s.notify w).isReady i = s.isReady i := by unfold State.notify; split <;> (try split) <;> rfl
@[simp] theorem isReady_setQState (s : State) (q : Nat) (st : QState) (i : Nat) : (s.setQState q st).isReady i = s.isReady i := by unfold State.setQState; split <;> rfl
@[simp] theorem isReady_pushBack (s : State) (q j : Nat) (i : Nat) : (s.pushBack q j).isReady i = s.isReady i := by unfold State.pushBack; split <;> rfl
@[simp] theorem isReady_pushFront (s : State) (q j : Nat) (i : Nat) : (s.pushFront q j).isReady i = s.isReady i := by unfold State.pushFront; split <;> rfl
@[simp] theorem isReady_setJobPh (s : State) (j : Nat) (ph : Phase) (i : Nat) : (s.setJobPh j ph).isReady i = s.isReady i := by unfold State.setJobPh; split <;> rfl

theorem jobK_setJob_of {s : State} {j : Nat} {b : Job} (hj : s.jobs[j]? = some b) (v : Job) (i : Nat) :
    (s.setJob j v).jobK i = if i = j then kOf v else s.jobK i := by
  have hlt : j < s.jobs.length := (List.getElem?_eq_some_iff.mp hj).1
  simp only [State.jobK, State.setJob, List.getElem?_set]
  by_cases h : i = j
  · subst h; simp [hlt]
  · have : ¬ j = i := fun e => h e.symm
    simp [h, this]

theorem jobK_setJob_keep {s : State} {j : Nat} {b v : Job} (hj : s.jobs[j]? = some b) (hk : v.kind = b.kind) (i : Nat) :
    (s.setJob j v).jobK i = s.jobK i := by
  rw [jobK_setJob_of hj]
  split
  · next e => rw [e, jobK_of hj]; simp [kOf, hk]
  · rfl

theorem jobD_setJob_of {s : State} {j : Nat} {b : Job} (hj : s.jobs[j]? = some b) (v : Job) (i : Nat) :
    (s.setJob j v).jobD i = if i = j then (v.ph == .done) else s.jobD i := by
  have hlt : j < s.jobs.length := (List.getElem?_eq_some_iff.mp hj).1
  simp only [State.jobD, State.setJob, List.getElem?_set]
  by_cases h : i = j
  · subst h; simp [hlt]
  · have : ¬ j = i := fun e => h e.symm
    simp [h, this]

/-- a `setJob` that does not take a job out of `done` never resets a done flag -/
theorem jobD_setJob_mono {s : State} {j : Nat} {b v : Job} (hj : s.jobs[j]? = some b) (hk : b.ph = .done → v.ph = .done) :
    ∀ i, s.jobD i = true → (s.setJob j v).jobD i = true := by
  intro i hi
  rw [jobD_setJob_of hj]
  split
  · next e => rw [e, jobD_of hj] at hi; simp at hi; simp [hk hi]
  · exact hi

theorem jobK_of_append {Y s : State} {nj : Job} (hJ : Y.jobs = s.jobs ++ [nj]) (i : Nat) :
    Y.jobK i = if i = s.jobs.length then kOf nj else s.jobK i := by
  simp only [State.jobK, hJ]
  by_cases h : i = s.jobs.length
  · subst h; simp
  · by_cases hlt : i < s.jobs.length
    · simp [h, List.getElem?_append_left hlt]
    · have h1 : (s.jobs ++ [nj])[i]? = none := by simp; omega
      have h2 : s.jobs[i]? = none := by simp; omega
      simp [h, h1, h2]

theorem jobD_of_append {Y s : State} {nj : Job} (hJ : Y.jobs = s.jobs ++ [nj]) (i : Nat) :
    Y.jobD i = if i = s.jobs.length then (nj.ph == .done) else s.jobD i := by
  simp only [State.jobD, hJ]
  by_cases h : i = s.jobs.length
  · subst h; simp
  · by_cases hlt : i < s.jobs.length
    · simp [h, List.getElem?_append_left hlt]
    · have h1 : (s.jobs ++ [nj])[i]? = none := by simp; omega
      have h2 : s.jobs[i]? = none := by simp; omega
      simp [h, h1, h2]

theorem jobK_fresh (s : State) : s.jobK s.jobs.length = none := by simp [State.jobK]
theorem jobD_fresh (s : State) : s.jobD s.jobs.length = false := by simp [State.jobD]

@[simp] theorem jobK_setJobPh (s : State) (j : Nat) (ph : Phase) (i : Nat) : (s.setJobPh j ph).jobK i = s.jobK i := by
  unfold State.setJobPh
  split
  · next v hv => exact jobK_setJob_keep (v := { v with ph := ph }) hv rfl i
  · rfl

end Desync
