/-
The condition-variable invariant is preserved by every internal step.
-/
import DesyncModel.Inv.Cv

namespace Desync
open Gen

theorem isWoken_setAct_ne {X : State} {a b : Nat} (v : Act) (h : b ≠ a) : (X.setAct a v).isWoken b = X.isWoken b := by
  simp only [State.isWoken, State.setAct, List.getElem?_set]
  have : ¬ a = b := fun e => h e.symm
  simp [this]

theorem isWoken_goto_ne {X : State} {a b : Nat} (pc : Pc) (h : b ≠ a) : (X.goto a pc).isWoken b = X.isWoken b := by
  unfold State.goto
  split
  · exact isWoken_setAct_ne _ h
  · rfl

@[simp] theorem isWoken_setQ (s : State) (q : Nat) (v : JobQ) (i : Nat) : (s.setQ q v).isWoken i = s.isWoken i := rfl
@[simp] theorem isWoken_setJob (s : State) (j : Nat) (v : Job) (i : Nat) : (s.setJob j v).isWoken i = s.isWoken i := rfl
@[simp] theorem isWoken_setFut (s : State) (f : Nat) (v : Fut) (i : Nat) : (s.setFut f v).isWoken i = s.isWoken i := rfl
@[simp] theorem isWoken_setGate (s : State) (g : Nat) (v : Gate) (i : Nat) : (s.setGate g v).isWoken i = s.isWoken i := rfl
@[simp] theorem isWoken_setSf (s : State) (u : Nat) (v : SyncFut) (i : Nat) : (s.setSf u v).isWoken i = s.isWoken i := rfl
@[simp] theorem isWoken_setPThr (s : State) (p : Nat) (v : PThr) (i : Nat) : (s.setPThr p v).isWoken i = s.isWoken i := rfl
@[simp] theorem isWoken_setHolder (s : State) (q : Nat) (h : Option Nat) (i : Nat) : (s.setHolder q h).isWoken i = s.isWoken i := rfl
@[simp] theorem isWoken_takeReady (s : State) (w a : Nat) (i : Nat) : (s.takeReady w a).isWoken i = s.isWoken i := rfl
@[simp] theorem isWoken_dropReady (s : State) (w : Nat) (i : Nat) : (s.dropReady w).isWoken i = s.isWoken i := rfl
@[simp] theorem isWoken_setQState (s : State) (q : Nat) (st : QState) (i : Nat) : (s.setQState q st).isWoken i = s.isWoken i := by
  unfold State.setQState; split <;> rfl
@[simp] theorem isWoken_pushBack (s : State) (q j : Nat) (i : Nat) : (s.pushBack q j).isWoken i = s.isWoken i := by unfold State.pushBack; split <;> rfl
@[simp] theorem isWoken_pushFront (s : State) (q j : Nat) (i : Nat) : (s.pushFront q j).isWoken i = s.isWoken i := by unfold State.pushFront; split <;> rfl
@[simp] theorem isWoken_setJobPh (s : State) (j : Nat) (ph : Phase) (i : Nat) : (s.setJobPh j ph).isWoken i = s.isWoken i := by unfold State.setJobPh; split <;> rfl
@[simp] theorem isWoken_newJob (s : State) (q : Nat) (k : JobKind) (i : Nat) : (s.newJob q k).1.isWoken i = s.isWoken i := rfl
@[simp] theorem isWoken_dequeue (s : State) (q a i : Nat) : (s.dequeue q a).1.isWoken i = s.isWoken i := by
  simp only [State.isWoken, dequeue_acts]
@[simp] theorem isReady_newJob (s : State) (q : Nat) (k : JobKind) (i : Nat) : (s.newJob q k).1.isReady i = s.isReady i := rfl
@[simp] theorem readyLock_newJob (s : State) (q : Nat) (k : JobKind) : (s.newJob q k).1.readyLock = s.readyLock := rfl

theorem dequeue_ready (s : State) (q a : Nat) : (s.dequeue q a).1.readyLock = s.readyLock ∧ (s.dequeue q a).1.ready = s.ready := by
  unfold State.dequeue
  split
  · split
    · split <;> simp
    · simp
  · simp
@[simp] theorem readyLock_dequeue (s : State) (q a : Nat) : (s.dequeue q a).1.readyLock = s.readyLock := (dequeue_ready s q a).1
@[simp] theorem isReady_dequeue (s : State) (q a i : Nat) : (s.dequeue q a).1.isReady i = s.isReady i := by
  simp only [State.isReady, (dequeue_ready s q a).2]

set_option hygiene false in
macro "cv_wok" : tactic => `(tactic| (
  intro b hb
  simp only [isWoken_goto_ne _ hb, isWoken_setAct_ne _ hb, isWoken_setQ, isWoken_setJob, isWoken_setFut, isWoken_setGate, isWoken_setSf, isWoken_setPThr,
             isWoken_setHolder, isWoken_takeReady, isWoken_dropReady, isWoken_setQState, isWoken_pushBack, isWoken_pushFront, isWoken_setJobPh,
             isWoken_newJob, isWoken_dequeue]
  first | done | rfl | (simp [State.isWoken, dequeue_acts]; done)))

set_option hygiene false in
macro "cv_new" : tactic => `(tactic| (
  first
  | (rw [pcAt_goto_self _ (by simpa [dequeue_acts] using hlt)])
  | (rw [pcAt_setAct_self _ (by simpa [dequeue_acts] using hlt)])
  | (rw [pcAt_setQ, pcAt_goto_self _ (by simpa [dequeue_acts] using hlt)])
  (try simp only [Pc.cvWf, Pc.cvQuiet, cvQuiet_ctxReady, cvQuiet_ctxPending, Bool.and_eq_true] at hw)
  first
  | (simp only [Pc.cvQuiet, cvQuiet_ctxReady, cvQuiet_ctxPending]; done)
  | ((try simp only [Pc.cvQuiet, cvQuiet_ctxReady, cvQuiet_ctxPending, Bool.and_eq_true]);
     first | exact hw | trivial | (split <;> first | trivial | exact hw | (simp_all; done)) | (simp_all; done))
  | (cases ‹Ctx› <;> simp_all [Pc.cvWf, Pc.cvQuiet, ctxReady, ctxPending])))

theorem isWoken_setWoken_ne {X : State} {a b : Nat} (v : Bool) (h : b ≠ a) : (X.setWoken a v).isWoken b = X.isWoken b := by
  unfold State.setWoken
  split
  · exact isWoken_setAct_ne _ h
  · rfl

theorem isWoken_notify_mono {X : State} {w b : Nat} (h : X.isWoken b = true) : (X.notify w).isWoken b = true := by
  unfold State.notify
  split
  · next v hv =>
    split
    · by_cases hb : b = w
      · subst hb; simp [State.isWoken, State.setAct, List.getElem?_set, lt_of_getElem?_some hv]
      · rw [isWoken_setAct_ne _ hb]; exact h
    · exact h
  · exact h

theorem isWoken_notify_self {X : State} {w q j : Nat} (h : X.pcAt w = .sbWaiting q j) : (X.notify w).isWoken w = true := by
  unfold State.notify
  simp only [State.pcAt] at h
  split
  · next v hv =>
    rw [hv] at h
    simp only at h
    rw [h]
    simp [State.isWoken, State.setAct, List.getElem?_set, lt_of_getElem?_some hv]
  · next hv => rw [hv] at h; cases h

set_option hygiene false in
macro "cv_open" : tactic => `(tactic| (
  have hlt : a < s.acts.length := lt_of_getElem?_some ha
  have hpca := pcAt_of ha
  have hw := h.wf a
  rw [hpca, hpc] at hw
  have hm := jobMono_stepAct hs
  unfold stepAct at hs
  simp only [ha, hc, hpc, Option.isSome_none, Bool.false_eq_true, ↓reduceIte] at hs))

set_option hygiene false in
macro "cv_fin" : tactic => `(tactic| (
  all_goals (try (simp at hs; done))
  all_goals (simp only [Option.some.injEq, Prod.mk.injEq] at hs; obtain ⟨rfl, _⟩ := hs)))

set_option hygiene false in
/-- the `ready` flags are untouched -/
macro "cv_rsame" : tactic => `(tactic| (intro b _ hx; left; first | (simpa using hx) | (simpa [State.isReady] using hx)))

set_option hygiene false in
/-- nobody else's `woken` bit is touched -/
macro "cv_wsame" : tactic => `(tactic| (
  intro b hb hx
  simp only [isWoken_goto_ne _ hb, isWoken_setAct_ne _ hb, isWoken_setWoken_ne _ hb, isWoken_setQ, isWoken_setJob, isWoken_setHolder, isWoken_takeReady, isWoken_dropReady]
  first | exact hx | (simpa [State.isWoken] using hx)))

set_option hygiene false in
/-- the mover was not about to notify the owner of a dropped job -/
macro "cv_noleave" : tactic => `(tactic| (intro j b h1; rw [hpca, hpc] at h1; simp [Pc.dropNotifies] at h1))

set_option hygiene false in
macro "cv_self" : tactic => `(tactic| first
  | (rw [pcAt_goto_self _ (by simpa [dequeue_acts] using hlt)])
  | (rw [pcAt_setAct_self _ (by simpa [dequeue_acts] using hlt)]))

theorem takeReady_lock (s : State) (w a : Nat) (pc : Pc) : ((s.takeReady w a).goto a pc).readyLock = (w, a) :: s.readyLock := by
  simp [State.takeReady]

theorem cv_sbLockReady {s s' : State} {a : Nat} {o : Obs} (h : CvInv s) (act : Act) (ha : s.acts[a]? = some act) (hc : act.child = none) (q j : Nat)
    (hpc : act.pc = .sbLockReady q j) (hs : stepAct s a = some (s', o)) : CvInv s' := by
  cv_open
  split at hs
  · simp at hs
  · next hg =>
    cv_fin
    have hfree := not_held_of (by simpa using hg : s.readyHeld a = false)
    refine CvInv.step (a := a) h hm (by sim_oth) (Or.inr (Or.inl ⟨a, hfree, takeReady_lock s a a _⟩)) (by cv_rsame) (by cv_wsame) (by cv_noleave) ?_ ?_ ?_ ?_ ?_
    · cv_self; rfl
    · intro _; rw [takeReady_lock]; exact List.mem_cons_self
    · intro w hx; revert hx; cv_self; simp [Pc.notifies]
    · cv_self; simp [Pc.sbNr]
    · cv_self; simp [Pc.sbAsleep]

theorem cv_sbTest {s s' : State} {a : Nat} {o : Obs} (h : CvInv s) (act : Act) (ha : s.acts[a]? = some act) (hc : act.child = none) (q j : Nat)
    (hpc : act.pc = .sbTest q j) (hs : stepAct s a = some (s', o)) : CvInv s' := by
  cv_open
  have hown := h.rl a (by rw [hpca, hpc]; rfl)
  split at hs
  · cv_fin
    refine CvInv.step (a := a) h hm (by sim_oth) (Or.inl (by simp)) (by cv_rsame) (by cv_wsame) (by cv_noleave) ?_ ?_ ?_ ?_ ?_
    · cv_self; rfl
    · intro _; simpa using hown
    · intro w hx; revert hx; cv_self; simp [Pc.notifies]
    · cv_self; simp [Pc.sbNr]
    · cv_self; simp [Pc.sbAsleep]
  · next hr =>
    cv_fin
    refine CvInv.step (a := a) h hm (by sim_oth) (Or.inl (by simp)) (by cv_rsame) (by cv_wsame) (by cv_noleave) ?_ ?_ ?_ ?_ ?_
    · cv_self; rfl
    · intro _; simpa using hown
    · intro w hx; revert hx; cv_self; simp [Pc.notifies]
    · intro _; simpa using hr
    · cv_self; simp [Pc.sbAsleep]

theorem cv_sbClaim {s s' : State} {a : Nat} {o : Obs} (h : CvInv s) (act : Act) (ha : s.acts[a]? = some act) (hc : act.child = none) (q j : Nat)
    (hpc : act.pc = .sbClaim q j) (hs : stepAct s a = some (s', o)) : CvInv s' := by
  cv_open
  have hown := h.rl a (by rw [hpca, hpc]; rfl)
  have hnr := h.nr a (by rw [hpca, hpc]; rfl)
  split at hs
  · simp at hs
  · split at hs
    · simp at hs
    · try dsimp only at hs
      split at hs
      · cv_fin
        refine CvInv.step (a := a) h hm (by sim_oth) (Or.inl (by simp)) (by cv_rsame) (by cv_wsame) (by cv_noleave) ?_ ?_ ?_ ?_ ?_
        · cv_self; rfl
        · intro _; simpa using hown
        · intro w hx; revert hx; cv_self; simp [Pc.notifies]
        · intro _; simpa [State.isReady] using hnr
        · cv_self; simp [Pc.sbAsleep]
      · cv_fin
        refine CvInv.step (a := a) h hm (by sim_oth) (Or.inl (by simp)) (by cv_rsame) (by cv_wsame) (by cv_noleave) ?_ ?_ ?_ ?_ ?_
        · cv_self; rfl
        · intro _; simpa using hown
        · intro w hx; revert hx; cv_self; simp [Pc.notifies]
        · intro _; simpa [State.isReady] using hnr
        · cv_self; simp [Pc.sbAsleep]

theorem cv_sbClaimRel {s s' : State} {a : Nat} {o : Obs} (h : CvInv s) (act : Act) (ha : s.acts[a]? = some act) (hc : act.child = none) (q j : Nat) (cl : Bool)
    (hpc : act.pc = .sbClaimRel q j cl) (hs : stepAct s a = some (s', o)) : CvInv s' := by
  cv_open
  have hown := h.rl a (by rw [hpca, hpc]; rfl)
  have hnr := h.nr a (by rw [hpca, hpc]; rfl)
  cv_fin
  refine CvInv.step (a := a) h hm (by sim_oth) (Or.inl (by simp)) (by cv_rsame) (by cv_wsame) (by cv_noleave) ?_ ?_ ?_ ?_ ?_
  · cv_self; cases cl <;> rfl
  · intro _; simpa using hown
  · intro w hx; revert hx; cv_self; cases cl <;> simp [Pc.notifies]
  · intro _; simpa [State.isReady] using hnr
  · cv_self; cases cl <;> simp [Pc.sbAsleep]

theorem dropReady_lock (s : State) (w a : Nat) (pc : Pc) : ((s.dropReady w).goto a pc).readyLock = s.readyLock.filter (fun p => p.1 != w) := by
  simp [State.dropReady]

theorem cv_sbRelReady {s s' : State} {a : Nat} {o : Obs} (h : CvInv s) (act : Act) (ha : s.acts[a]? = some act) (hc : act.child = none) (q j : Nat)
    (hpc : act.pc = .sbRelReady q j) (hs : stepAct s a = some (s', o)) : CvInv s' := by
  cv_open
  have hown := h.rl a (by rw [hpca, hpc]; rfl)
  cv_fin
  refine CvInv.step (a := a) h hm (by sim_oth) (Or.inr (Or.inr ⟨a, hown, dropReady_lock s a a _⟩)) (by cv_rsame) (by cv_wsame) (by cv_noleave) ?_ ?_ ?_ ?_ ?_
  · cv_self; rfl
  · cv_self; simp [Pc.sbOwn]
  · intro w hx; revert hx; cv_self; simp [Pc.notifies]
  · cv_self; simp [Pc.sbNr]
  · cv_self; simp [Pc.sbAsleep]

theorem cv_sbDone {s s' : State} {a : Nat} {o : Obs} (h : CvInv s) (act : Act) (ha : s.acts[a]? = some act) (hc : act.child = none) (q j : Nat)
    (hpc : act.pc = .sbDone q j) (hs : stepAct s a = some (s', o)) : CvInv s' := by
  cv_open
  have hown := h.rl a (by rw [hpca, hpc]; rfl)
  cv_fin
  refine CvInv.step (a := a) h hm (by sim_oth) (Or.inr (Or.inr ⟨a, hown, dropReady_lock s a a _⟩)) (by cv_rsame) (by cv_wsame) (by cv_noleave) ?_ ?_ ?_ ?_ ?_
  · cv_self; rfl
  · cv_self; simp [Pc.sbOwn]
  · intro w hx; revert hx; cv_self; simp [Pc.notifies]
  · cv_self; simp [Pc.sbNr]
  · cv_self; simp [Pc.sbAsleep]

theorem cv_sbWait {s s' : State} {a : Nat} {o : Obs} (h : CvInv s) (act : Act) (ha : s.acts[a]? = some act) (hc : act.child = none) (q j : Nat)
    (hpc : act.pc = .sbWait q j) (hs : stepAct s a = some (s', o)) : CvInv s' := by
  cv_open
  have hown := h.rl a (by rw [hpca, hpc]; rfl)
  have hnr := h.nr a (by rw [hpca, hpc]; rfl)
  cv_fin
  refine CvInv.step (a := a) h hm (by sim_oth) (Or.inr (Or.inr ⟨a, hown, by simp [State.dropReady]⟩)) (by cv_rsame) (by cv_wsame) (by cv_noleave) ?_ ?_ ?_ ?_ ?_
  · rw [pcAt_goto_self _ (by simpa using hlt)]; rfl
  · rw [pcAt_goto_self _ (by simpa using hlt)]; simp [Pc.sbOwn]
  · intro w hx; revert hx; rw [pcAt_goto_self _ (by simpa using hlt)]; simp [Pc.notifies]
  · rw [pcAt_goto_self _ (by simpa using hlt)]; simp [Pc.sbNr]
  · intro _; right; left; simpa using hnr

theorem cv_sbWaiting {s s' : State} {a : Nat} {o : Obs} (h : CvInv s) (act : Act) (ha : s.acts[a]? = some act) (hc : act.child = none) (q j : Nat)
    (hpc : act.pc = .sbWaiting q j) (hs : stepAct s a = some (s', o)) : CvInv s' := by
  cv_open
  split at hs
  · simp at hs
  · split at hs
    · simp at hs
    · next hg =>
      cv_fin
      have hfree := not_held_of (by simpa using hg : s.readyHeld a = false)
      refine CvInv.step (a := a) h hm (by sim_oth) (Or.inr (Or.inl ⟨a, hfree, by simp [State.takeReady]⟩)) (by cv_rsame) (by cv_wsame) (by cv_noleave) ?_ ?_ ?_ ?_ ?_
      · rw [pcAt_goto_self _ (by simpa using hlt)]; rfl
      · intro _; simp [State.takeReady]
      · intro w hx; revert hx; rw [pcAt_goto_self _ (by simpa using hlt)]; simp [Pc.notifies]
      · rw [pcAt_goto_self _ (by simpa using hlt)]; simp [Pc.sbNr]
      · rw [pcAt_goto_self _ (by simpa using hlt)]; simp [Pc.sbAsleep]

theorem cv_rqNotifyAcq {s s' : State} {a : Nat} {o : Obs} (h : CvInv s) (act : Act) (ha : s.acts[a]? = some act) (hc : act.child = none) (q : Nat) (todo : List Nat) (r : Bool) (k : Pc)
    (hpc : act.pc = .rqNotifyAcq q todo r k) (hs : stepAct s a = some (s', o)) : CvInv s' := by
  cv_open
  have hkq : k.cvQuiet = true := by simpa [Pc.cvWf, Pc.cvQuiet] using hw
  split at hs
  · split at hs
    · cv_fin
      refine CvInv.frame (a := a) h hm (by simp) (fun b => by simp) (by sim_oth) (fun b hb => isWoken_goto_ne _ hb) (by rw [hpca, hpc]; rfl) ?_
      cv_self; simpa [Pc.cvQuiet] using hkq
    · cv_fin
      refine CvInv.frame (a := a) h hm (by simp) (fun b => by simp) (by sim_oth) (fun b hb => isWoken_goto_ne _ hb) (by rw [hpca, hpc]; rfl) ?_
      cv_self; exact hkq
  · next w rest =>
    split at hs
    · simp at hs
    · next hg =>
      cv_fin
      have hfree := not_held_of (by simpa using hg : s.readyHeld w = false)
      refine CvInv.step (a := a) h hm (by sim_oth) (Or.inr (Or.inl ⟨w, hfree, takeReady_lock s w a _⟩)) (by cv_rsame) (by cv_wsame) (by cv_noleave) ?_ ?_ ?_ ?_ ?_
      · cv_self; simpa [Pc.cvWf] using hkq
      · cv_self; simp [Pc.sbOwn]
      · intro w' hx
        rw [pcAt_goto_self _ (by simpa using hlt)] at hx
        simp only [Pc.notifies, Option.some.injEq] at hx
        subst hx
        rw [takeReady_lock]; exact List.mem_cons_self
      · cv_self; simp [Pc.sbNr]
      · cv_self; simp [Pc.sbAsleep]

theorem cv_rqNotify {s s' : State} {a : Nat} {o : Obs} (h : CvInv s) (act : Act) (ha : s.acts[a]? = some act) (hc : act.child = none) (q : Nat) (todo : List Nat) (r : Bool) (k : Pc)
    (hpc : act.pc = .rqNotify q todo r k) (hs : stepAct s a = some (s', o)) : CvInv s' := by
  cv_open
  split at hs
  · simp at hs
  · next w rest =>
    have hheld := h.rl2 a w (by rw [hpca, hpc]; rfl)
    cv_fin
    refine CvInv.step (a := a) h hm (by sim_oth) (Or.inl (by simp)) (by cv_rsame) ?_ (by cv_noleave) ?_ ?_ ?_ ?_ ?_
    · intro b hb hx
      rw [isWoken_goto_ne _ hb]
      exact isWoken_notify_mono hx
    · cv_self; simpa [Pc.cvWf] using hw
    · cv_self; simp [Pc.sbOwn]
    · intro w' hx
      rw [pcAt_goto_self _ (by simpa using hlt)] at hx
      simp only [Pc.notifies, Option.some.injEq] at hx
      subst hx
      simpa using hheld
    · cv_self; simp [Pc.sbNr]
    · cv_self; simp [Pc.sbAsleep]

theorem cv_rqNotifyRel {s s' : State} {a : Nat} {o : Obs} (h : CvInv s) (act : Act) (ha : s.acts[a]? = some act) (hc : act.child = none) (q : Nat) (todo : List Nat) (r : Bool) (k : Pc)
    (hpc : act.pc = .rqNotifyRel q todo r k) (hs : stepAct s a = some (s', o)) : CvInv s' := by
  cv_open
  split at hs
  · simp at hs
  · next w rest =>
    have hheld := h.rl2 a w (by rw [hpca, hpc]; rfl)
    cv_fin
    refine CvInv.step (a := a) h hm (by sim_oth) (Or.inr (Or.inr ⟨w, hheld, dropReady_lock s w a _⟩)) (by cv_rsame) (by cv_wsame) (by cv_noleave) ?_ ?_ ?_ ?_ ?_
    · cv_self; simpa [Pc.cvWf, Pc.cvQuiet] using hw
    · cv_self; simp [Pc.sbOwn]
    · intro w' hx; revert hx; cv_self; simp [Pc.notifies]
    · cv_self; simp [Pc.sbNr]
    · cv_self; simp [Pc.sbAsleep]

theorem cv_jobDrop {s s' : State} {a : Nat} {o : Obs} (h : CvInv s) (act : Act) (ha : s.acts[a]? = some act) (hc : act.child = none) (j : Nat) (c : Ctx) (k : Pc)
    (hpc : act.pc = .jobDrop j c k) (hs : stepAct s a = some (s', o)) : CvInv s' := by
  cv_open
  split at hs
  · simp at hs
  · next jb hjb =>
    try dsimp only at hs
    split at hs
    · next owner body hk =>
      split at hs
      · simp at hs
      · next hg =>
        cv_fin
        have hfree := not_held_of (by simpa using hg : s.readyHeld owner = false)
        refine CvInv.step (a := a) h hm (by sim_oth) (Or.inl (by simp)) ?_ (by cv_wsame) (by cv_noleave) ?_ ?_ ?_ ?_ ?_
        · intro b _ hx
          simp only [isReady_goto] at hx
          by_cases hbo : b = owner
          · right
            subst hbo
            refine ⟨hfree, j, ?_, ?_⟩
            · rw [pcAt_goto_self _ (by simpa using hlt)]; rfl
            · have hlt' : j < s.jobs.length := lt_of_getElem?_some hjb
              simp [State.jobOwner, State.setJob, List.getElem?_set, hlt', hk]
          · left
            simp only [State.isReady, List.contains_cons, Bool.or_eq_true, beq_iff_eq] at hx
            rcases hx with hx | hx
            · exact absurd hx hbo
            · simpa [State.isReady] using hx
        · cv_self
          simp only [Pc.cvWf]
          simpa [Pc.cvWf, Pc.cvQuiet] using hw
        · cv_self; simp [Pc.sbOwn]
        · intro w' hx; revert hx; cv_self; simp [Pc.notifies]
        · cv_self; simp [Pc.sbNr]
        · cv_self; simp [Pc.sbAsleep]
    · cv_fin
      refine CvInv.frame (a := a) h hm (by simp) (fun b => by simp) (by sim_oth) (fun b hb => by rw [isWoken_goto_ne _ hb]; rfl) (by rw [hpca, hpc]; rfl) ?_
      cv_self
      cases c <;> simp_all [Pc.cvWf, Pc.cvQuiet, ctxReady]

theorem cv_jobDropNotify {s s' : State} {a : Nat} {o : Obs} (h : CvInv s) (act : Act) (ha : s.acts[a]? = some act) (hc : act.child = none) (j : Nat) (c : Ctx) (k : Pc)
    (hpc : act.pc = .jobDropNotify j c k) (hs : stepAct s a = some (s', o)) : CvInv s' := by
  cv_open
  split at hs
  · simp at hs
  · next jb hjb =>
    split at hs
    · next owner body hk =>
      cv_fin
      have hnewq : (ctxReady k c).cvQuiet = true := by
        cases c <;> simp_all [Pc.cvWf, Pc.cvQuiet, ctxReady]
      have hns := not_special_classes (cvQuiet_not_special _ hnewq)
      refine CvInv.step (a := a) h hm (by sim_oth) (Or.inl (by simp)) (by cv_rsame) ?_ ?_ ?_ ?_ ?_ ?_ ?_
      · intro b hb hx
        rw [isWoken_goto_ne _ hb]
        exact isWoken_notify_mono hx
      · intro j' b h1 h2 hba hb
        left
        rw [hpca, hpc] at h1
        simp only [Pc.dropNotifies, Option.some.injEq] at h1
        subst h1
        have hbo : b = owner := by
          simp only [State.jobOwner, hjb, hk, Option.some.injEq] at h2
          exact h2.symm
        subst hbo
        rw [isWoken_goto_ne _ hba]
        have hpcb : ∃ q' j', s.pcAt b = .sbWaiting q' j' := by
          cases hp : s.pcAt b <;> simp_all [Pc.sbAsleep]
        obtain ⟨q', j', hpcb⟩ := hpcb
        exact isWoken_notify_self hpcb
      · cv_self; exact cvQuiet_wf _ hnewq
      · cv_self; rw [hns.1]; intro hx; cases hx
      · intro w' hx; revert hx; cv_self; rw [hns.2.2.2.1]; intro hx; cases hx
      · cv_self; rw [hns.2.1]; intro hx; cases hx
      · cv_self; rw [hns.2.2.1]; intro hx; cases hx
    · simp at hs

/-- a new activity that is none of the protocol's business -/
theorem CvInv.append {s X : State} {n : Act} (h : CvInv s) (hacts : X.acts = s.acts ++ [n]) (hn : n.pc.cvQuiet = true)
    (hrl : X.readyLock = s.readyLock) (hr : X.ready = s.ready) (hj : X.jobs = s.jobs) : CvInv X := by
  have hpc : ∀ b, X.pcAt b = s.pcAt b ∨ X.pcAt b = n.pc := by
    intro b
    simp only [State.pcAt, hacts]
    by_cases hlt : b < s.acts.length
    · left; rw [List.getElem?_append_left hlt]
    · by_cases hbe : b = s.acts.length
      · right; subst hbe; simp
      · left
        have h1 : (s.acts ++ [n])[b]? = none := by simp; omega
        have h2 : s.acts[b]? = none := by simp; omega
        rw [h1, h2]
  have hcls := not_special_classes (cvQuiet_not_special _ hn)
  have hwok : ∀ b, X.pcAt b = s.pcAt b → (s.pcAt b).sbAsleep = true → X.isWoken b = s.isWoken b := by
    intro b _ hb
    have hlt : b < s.acts.length := by
      by_cases hlt : b < s.acts.length
      · exact hlt
      · have h2 : s.acts[b]? = none := by simp; omega
        simp [State.pcAt, h2, Pc.sbAsleep] at hb
    simp only [State.isWoken, hacts, List.getElem?_append_left hlt]
  have hready : ∀ b, X.isReady b = s.isReady b := fun b => by simp only [State.isReady, hr]
  have hown : ∀ j, X.jobOwner j = s.jobOwner j := fun j => by simp only [State.jobOwner, hj]
  refine ⟨?_, ?_, ?_, ?_, ?_, ?_⟩
  · intro b
    rcases hpc b with e | e
    · rw [e]; exact h.wf b
    · rw [e]; exact cvQuiet_wf _ hn
  · rw [hrl]; exact h.ml
  · intro b hb
    rcases hpc b with e | e
    · rw [e] at hb; rw [hrl]; exact h.rl b hb
    · rw [e, hcls.1] at hb; cases hb
  · intro b w hb
    rcases hpc b with e | e
    · rw [e] at hb; rw [hrl]; exact h.rl2 b w hb
    · rw [e, hcls.2.2.2.1] at hb; cases hb
  · intro b hb
    rcases hpc b with e | e
    · rw [e] at hb; rw [hready]; exact h.nr b hb
    · rw [e, hcls.2.1] at hb; cases hb
  · intro b hb
    rcases hpc b with e | e
    · rw [e] at hb
      rw [hwok b e hb, hready]
      rcases h.w b hb with h1 | h1 | ⟨c, j, h1, h2⟩
      · exact Or.inl h1
      · exact Or.inr (Or.inl h1)
      · refine Or.inr (Or.inr ⟨c, j, ?_, by rw [hown]; exact h2⟩)
        rcases hpc c with e2 | e2
        · rw [e2]; exact h1
        · have hlt : c < s.acts.length := by
            by_cases hlt : c < s.acts.length
            · exact hlt
            · have h3 : s.acts[c]? = none := by simp; omega
              simp [State.pcAt, h3, Pc.dropNotifies] at h1
          simp only [State.pcAt, hacts, List.getElem?_append_left hlt]
          exact h1
    · rw [e, hcls.2.2.1] at hb; cases hb

theorem cv_stSpawn {s s' : State} {a : Nat} {o : Obs} (h : CvInv s) (act : Act) (ha : s.acts[a]? = some act) (hc : act.child = none) (m : Nat) (k : Pc)
    (hpc : act.pc = .stSpawn m k) (hs : stepAct s a = some (s', o)) : CvInv s' := by
  cv_open
  have hkq : k.cvQuiet = true := by simpa [Pc.cvWf, Pc.cvQuiet] using hw
  split at hs
  · simp at hs
  · split at hs
    · cv_fin
      have h1 := CvInv.append (X := { s with pthreads := s.pthreads ++ [{ busy := false, busyLock := none, mailbox := 0, hungUp := false, exited := false }], threadsVec := s.threadsVec ++ [s.pthreads.length], threadsLock := some a, acts := s.acts ++ [{ thread := 1000 + s.pthreads.length, pc := .ptRecv s.pthreads.length, parent := none, child := none, woken := false, result := none, mode := .await, once := false }] })
        h rfl (by simp [Pc.cvQuiet]) rfl rfl rfl
      have hold : a < s.acts.length + 1 := by omega
      refine CvInv.frame (a := a) h1 (JobMono.refl _ |>.upd (by simp)) (by simp) (fun b => by simp) (fun b hb => pcAt_goto_ne _ hb) (fun b hb => isWoken_goto_ne _ hb) ?_ ?_
      · simp only [State.pcAt, List.getElem?_append_left hlt, ha, hpc]; rfl
      · rw [pcAt_goto_self _ (by simpa using hold)]; simpa [Pc.cvQuiet] using hkq
    · cv_fin
      refine CvInv.frame (a := a) h hm (by simp) (fun b => by simp) (by sim_oth) (fun b hb => isWoken_goto_ne _ hb) (by rw [hpca, hpc]; rfl) ?_
      cv_self; exact hkq

theorem cv_dqDequeue {s s' : State} {a : Nat} {o : Obs} (h : CvInv s) (act : Act) (ha : s.acts[a]? = some act) (hc : act.child = none) (f q : Nat)
    (hpc : act.pc = .dqDequeue f q) (hs : stepAct s a = some (s', o)) : CvInv s' := by
  cv_open
  try dsimp only at hs
  split at hs
  · cv_fin
    refine CvInv.frame (a := a) h hm ?_ ?_ (by sim_oth) ?_ (by rw [hpca, hpc]; rfl) ?_
    · simp only [readyLock_goto]; exact readyLock_dequeue s q a
    · intro b; simp only [isReady_goto]; exact isReady_dequeue s q a b
    · intro b hb; rw [isWoken_goto_ne _ hb]; exact isWoken_dequeue s q a b
    · rw [pcAt_goto_self _ (by simpa [dequeue_acts] using hlt)]; simp [Pc.cvQuiet]
  · cv_fin
    refine CvInv.frame (a := a) h hm (by simp) (fun b => by simp) (by sim_oth) (fun b hb => by rw [isWoken_goto_ne _ hb]; simp) (by rw [hpca, hpc]; rfl) ?_
    rw [pcAt_goto_self _ (by simpa [dequeue_acts] using hlt)]; simp [Pc.cvQuiet]

set_option maxHeartbeats 4000000 in
set_option maxRecDepth 8000 in
theorem cvInv_stepAct {s s' : State} {a : Nat} {o : Obs} (h : CvInv s) (hs : stepAct s a = some (s', o)) : CvInv s' := by
  have hs0 := hs
  have hm := jobMono_stepAct hs
  unfold stepAct at hs
  split at hs
  · simp at hs
  next act ha =>
  split at hs
  · simp at hs
  next hchild =>
  have hlt : a < s.acts.length := lt_of_getElem?_some ha
  have hpca := pcAt_of ha
  have hw := h.wf a
  rw [hpca] at hw
  have hc : act.child = none := by
    cases hcc : act.child <;> simp_all
  split at hs
  all_goals (try (simp at hs; done))
  all_goals (try (first
      | exact cv_sbLockReady h act ha hc _ _ (by assumption) hs0
      | exact cv_sbTest h act ha hc _ _ (by assumption) hs0
      | exact cv_sbClaim h act ha hc _ _ (by assumption) hs0
      | exact cv_sbClaimRel h act ha hc _ _ _ (by assumption) hs0
      | exact cv_sbRelReady h act ha hc _ _ (by assumption) hs0
      | exact cv_sbDone h act ha hc _ _ (by assumption) hs0
      | exact cv_sbWait h act ha hc _ _ (by assumption) hs0
      | exact cv_sbWaiting h act ha hc _ _ (by assumption) hs0
      | exact cv_rqNotifyAcq h act ha hc _ _ _ _ (by assumption) hs0
      | exact cv_rqNotify h act ha hc _ _ _ _ (by assumption) hs0
      | exact cv_rqNotifyRel h act ha hc _ _ _ _ (by assumption) hs0
      | exact cv_jobDrop h act ha hc _ _ _ (by assumption) hs0
      | exact cv_jobDropNotify h act ha hc _ _ _ (by assumption) hs0
      | exact cv_stSpawn h act ha hc _ _ (by assumption) hs0
      | exact cv_dqDequeue h act ha hc _ _ (by assumption) hs0))
  all_goals (try dsimp only at hs)
  all_goals (repeat' split at hs)
  all_goals (try (simp at hs; done))
  all_goals (try (simp only [Option.some.injEq, Prod.mk.injEq] at hs; obtain ⟨rfl, _⟩ := hs))
  all_goals (try (rw [‹act.pc = _›] at hw))
  all_goals (first
      | (refine CvInv.frame (a := a) h hm ?_ ?_ ?_ ?_ ?_ ?_
         · first | rfl | (simp; done)
         · intro b; first | rfl | (simp only [isReady_goto, isReady_setAct, isReady_setQ, isReady_setFut, isReady_setGate, isReady_setSf, isReady_setPThr, isReady_setHolder, isReady_takeReady, isReady_dropReady, isReady_setJob, isReady_setWoken, isReady_notify, isReady_setQState, isReady_pushBack, isReady_pushFront, isReady_setJobPh, isReady_newJob, isReady_dequeue]; first | done | rfl) | (simp [State.isReady]; done)
         · sim_oth
         · cv_wok
         · (rw [hpca, ‹act.pc = _›]; rfl)
         · cv_new)
      | skip)
  done

end Desync
