/-
OwnedInv holds in every reachable state; consequence: no queue is ever left marked as running with nobody running it.
-/
import DesyncModel.Inv.OwnedStep
namespace Desync
open Gen

theorem ownedInv_init (nq ng max : Nat) : OwnedInv (initState nq ng max) := by
  refine ⟨?_⟩
  intro q st hs hheld
  simp only [initState, State.qSt, List.getElem?_replicate] at hs
  split at hs <;> simp at hs
  subst hs; simp [QState.held] at hheld

theorem ownedInv_initP (ps : List Bool) (ng max : Nat) : OwnedInv (initStateP ps ng max) := by
  refine ⟨?_⟩
  intro q st hs hheld
  rcases qSt_initP hs with h | h <;> (rw [h] at hheld; simp [QState.held] at hheld)

theorem ownedInv_setChild {s : State} (h : OwnedInv s) (p : Nat) (c : Option Nat) :
    OwnedInv (match s.acts[p]? with | some pv => s.setAct p { pv with child := c } | none => s) := by
  split
  · exact OwnedInv.setAct_of h
  · exact h

theorem ownedInv_addAct {s0 : State} (h0 : OwnedInv s0) (t : Nat) (parent : Option Nat) (pc : Pc) (once : Bool) :
    OwnedInv (addAct s0 t parent pc once).1 := by
  let n : Act := { thread := t, pc := pc, parent := parent, child := none, woken := false, result := none, mode := .await, once := once }
  have h1 : OwnedInv ({ s0 with acts := s0.acts ++ [n], nextOp := s0.nextOp + 1 } : State) := OwnedInv.same h0 rfl rfl
  unfold addAct
  cases parent with
  | none => exact h1
  | some p =>
    simp only
    have := ownedInv_setChild h1 p (some s0.acts.length)
    split
    · next pv hpv => simp only [n, hpv] at this; exact this
    · exact h1

theorem ownedInv_invoke {s s' : State} {t a : Nat} {parent : Option Nat} {c : Call} (h : OwnedInv s)
    (hs : invoke s t parent c = some (s', a)) : OwnedInv s' := by
  unfold invoke at hs
  cases c <;> simp only at hs
  all_goals (repeat' split at hs)
  all_goals (try (simp at hs; done))
  all_goals (
    have hs' := congrArg Prod.fst (Option.some.inj hs)
    simp only at hs'
    subst hs'
    refine ownedInv_addAct ?_ t parent _ _
    first
      | exact h
      | exact OwnedInv.same h rfl rfl
      | (refine OwnedInv.same h ?_ ?_ <;> first | rfl | (simp; done) | (split <;> (try split) <;> first | rfl | (simp; done))))

theorem ownedInv_bodyEnd {s s' : State} {a : Nat} {o : Obs} (h : OwnedInv s) (hs : bodyEnd s a = some (s', o)) : OwnedInv s' := by
  unfold bodyEnd at hs
  split at hs
  · split at hs
    · simp at hs
    · split at hs
      · obtain ⟨rfl, _⟩ := Prod.mk.inj (Option.some.inj hs); exact OwnedInv.goto_of h
      · simp at hs
  · simp at hs

theorem ownedInv_spuriousUnpark {s s' : State} {a : Nat} {o : Obs} (h : OwnedInv s) (hs : spuriousUnpark s a = some (s', o)) : OwnedInv s' := by
  unfold spuriousUnpark at hs
  split at hs
  · split at hs
    · obtain ⟨rfl, _⟩ := Prod.mk.inj (Option.some.inj hs); exact OwnedInv.goto_of h
    · simp at hs
  · simp at hs

theorem ownedInv_spuriousPoll {s s' : State} {a : Nat} (h : OwnedInv s) (hs : spuriousPoll s a = some s') : OwnedInv s' := by
  unfold spuriousPoll at hs
  split at hs
  · split at hs
    · cases Option.some.inj hs; exact OwnedInv.goto_of h
    · cases Option.some.inj hs; exact OwnedInv.goto_of h
    · simp at hs
  · simp at hs

theorem ownedInv_ret {s s' : State} {a r : Nat} (h : OwnedInv s) (hs : retStep s a = some (s', r)) : OwnedInv s' := by
  unfold retStep at hs
  split at hs
  · next act ha =>
    split at hs
    · obtain ⟨rfl, _⟩ := Prod.mk.inj (Option.some.inj hs)
      have h1 : OwnedInv (s.setAct a { act with pc := .dead }) := OwnedInv.setAct_of h
      split
      · next p hp => exact ownedInv_setChild h1 p none
      · exact h1
    · simp at hs
  · simp at hs

theorem ownedInv_reachable {s : State} (hr : Reachable s) : OwnedInv s := by
  induction hr with
  | init nq ng max => exact ownedInv_init nq ng max
  | initP ps ng max => exact ownedInv_initP ps ng max
  | step l hprev hstep ih =>
    have hh := holderInv_reachable hprev
    cases l with
    | act a =>
      simp only [next, Option.map_eq_some_iff] at hstep
      obtain ⟨⟨s1, o⟩, hs, rfl⟩ := hstep
      exact ownedInv_stepAct hh ih hs
    | invoke t parent c =>
      simp only [next] at hstep
      split at hstep
      · simp only [Option.map_eq_some_iff] at hstep
        obtain ⟨⟨s1, a⟩, hs, rfl⟩ := hstep
        exact ownedInv_invoke ih hs
      · simp at hstep
    | bodyEnd a =>
      simp only [next, Option.map_eq_some_iff] at hstep
      obtain ⟨⟨s1, o⟩, hs, rfl⟩ := hstep
      exact ownedInv_bodyEnd ih hs
    | ret a =>
      simp only [next, Option.map_eq_some_iff] at hstep
      obtain ⟨⟨s1, r⟩, hs, rfl⟩ := hstep
      exact ownedInv_ret ih hs
    | spuriousUnpark a =>
      simp only [next, Option.map_eq_some_iff] at hstep
      obtain ⟨⟨s1, o⟩, hs, rfl⟩ := hstep
      exact ownedInv_spuriousUnpark ih hs
    | spuriousPoll a =>
      simp only [next] at hstep
      exact ownedInv_spuriousPoll ih hstep

/-- **No queue is left marked as running with nobody running it**: in every reachable state a queue whose state is `running`,
`awokenWhileRunning` or `waitingForUnpark` is owned by an activity whose program counter is inside the code that runs that
queue.  In particular, once every call has returned and the pool threads are idle no queue is in one of these states —
the class of defects F1 (try_sync marked the queue running and returned Busy) and F5 (a panic left it running). -/
theorem running_queue_has_a_runner {s : State} (hr : Reachable s) {q : Nat} {v : JobQ} (hv : s.qs[q]? = some v) (hheld : v.state.held = true) :
    ∃ a, (s.pcAt a).holds q = true := by
  obtain ⟨a, ha⟩ := (ownedInv_reachable hr).owned q v.state (qSt_of hv) hheld
  exact ⟨a, ((holderInv_reachable hr).iff a q).mpr ha⟩

theorem no_orphaned_running_queue {s : State} (hr : Reachable s) (hidle : ∀ a q, (s.pcAt a).holds q = false)
    {q : Nat} {v : JobQ} (hv : s.qs[q]? = some v) : v.state.held = false := by
  cases hx : v.state.held with
  | false => rfl
  | true =>
    obtain ⟨a, ha⟩ := running_queue_has_a_runner hr hv hx
    rw [hidle a q] at ha; cases ha

end Desync
