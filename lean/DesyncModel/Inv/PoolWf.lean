/-
Every program counter stays well formed (`Pc.wf`): a `schedule_thread` step, a step of the pool-thread loop or a pool-resizing step
is only ever at the head of a pc, never inside a continuation.  This is what lets `PStep` classify a return to a continuation as
a return to something that is not a pool step.
-/
import DesyncModel.Inv.PoolSimBase

namespace Desync
open Gen

theorem WfAll.goto {s X : State} {a : Nat} {pc' : Pc} (h : WfAll s) (hX : ∀ b, X.pcAt b = s.pcAt b) (hpc : pc'.wf = true) :
    WfAll (X.goto a pc') := by
  intro b
  rw [pcAt_goto]
  split
  · exact hpc
  · rw [hX]; exact h b

theorem WfAll.setAct {s X : State} {a : Nat} {v : Act} (h : WfAll s) (hX : ∀ b, X.pcAt b = s.pcAt b) (hpc : v.pc.wf = true) :
    WfAll (X.setAct a v) := by
  intro b
  rw [pcAt_setAct]
  split
  · exact hpc
  · rw [hX]; exact h b

theorem WfAll.of_eq {s X : State} (h : WfAll s) (hX : ∀ b, X.pcAt b = s.pcAt b) : WfAll X := fun b => by rw [hX]; exact h b

theorem wf_pcAt_append {s X : State} {n : Act} (h : WfAll s) (hacts : X.acts = s.acts ++ [n]) (hn : n.pc.wf = true) : WfAll X := by
  intro b
  have hb := h b
  simp only [State.pcAt, hacts] at hb ⊢
  by_cases hlt : b < s.acts.length
  · rw [List.getElem?_append_left hlt]; exact hb
  · by_cases hbe : b = s.acts.length
    · subst hbe; simp [hn]
    · have : (s.acts ++ [n])[b]? = none := by simp; omega
      rw [this]; rfl

@[simp] theorem wf_ctxReady (k : Pc) (c : Ctx) : (ctxReady k c).wf = (match c with | .caller _ => k.wf | _ => true) := by
  cases c <;> simp [ctxReady, Pc.wf, Pc.quiet]
@[simp] theorem wf_ctxPending (j : Nat) (k : Pc) (c : Ctx) : (ctxPending j k c).wf = (match c with | .caller _ => k.quiet | _ => true) := by
  cases c <;> simp [ctxPending, Pc.wf, Pc.quiet]

theorem wf_stSpawn {s s' : State} {a : Nat} {o : Obs} (h : WfAll s) (act : Act) (ha : s.acts[a]? = some act) (hc : act.child = none) (m : Nat) (k : Pc)
    (hpc : act.pc = .stSpawn m k) (hs : stepAct s a = some (s', o)) : WfAll s' := by
  have hlt : a < s.acts.length := lt_of_getElem?_some ha
  have hw := h a
  rw [pcAt_of ha, hpc] at hw
  unfold stepAct at hs
  simp only [ha, hc, hpc, Option.isSome_none, Bool.false_eq_true, ↓reduceIte] at hs
  split at hs
  · simp at hs
  · split at hs
    · simp only [Option.some.injEq, Prod.mk.injEq] at hs; obtain ⟨rfl, _⟩ := hs
      intro b
      rw [pcAt_goto]
      split
      · simpa [Pc.wf] using hw
      · exact wf_pcAt_append h rfl (by simp [Pc.wf]) b
    · simp only [Option.some.injEq, Prod.mk.injEq] at hs; obtain ⟨rfl, _⟩ := hs
      exact WfAll.goto h (fun b => rfl) (quiet_wf _ (by simpa [Pc.wf] using hw))

set_option hygiene false in
macro "pwf_side" : tactic => `(tactic| first
  | (intro b; simp only [pcAt_setQ, pcAt_setJob, pcAt_setHolder, pcAt_setWoken, pcAt_notify, pcAt_setPThr, pcAt_setFut, pcAt_setGate,
                         pcAt_takeReady, pcAt_dropReady, pcAt_setJobPh, pcAt_pushFront, pcAt_pushBack, pcAt_setQState, pcAt_dequeue, pcAt_setSf, pcAt_newJob]; first | done | rfl)
  | (intro b; first | rfl | (simp [State.pcAt, dequeue_acts]; done))
  | ((try simp only [Pc.wf, Pc.quiet, quiet_ctxReady, quiet_ctxPending, wf_ctxReady, wf_ctxPending, Bool.and_eq_true] at hw);
     first
     | (simp only [Pc.wf, Pc.quiet, quiet_ctxReady, quiet_ctxPending, wf_ctxReady, wf_ctxPending]; done)
     | ((try simp only [Pc.wf, Pc.quiet, quiet_ctxReady, quiet_ctxPending, wf_ctxReady, wf_ctxPending, Bool.and_eq_true]);
        first | exact hw | trivial | exact quiet_wf _ hw | (split <;> first | trivial | exact hw | (simp_all; done)) | (simp_all; done)))
  | (cases ‹Ctx› <;> simp_all [Pc.wf, Pc.quiet, ctxReady, ctxPending] <;> exact quiet_wf _ (by assumption)))

set_option maxHeartbeats 4000000 in
set_option maxRecDepth 8000 in
theorem wfAll_stepAct {s s' : State} {a : Nat} {o : Obs} (h : WfAll s) (hs : stepAct s a = some (s', o)) : WfAll s' := by
  have hs0 := hs
  unfold stepAct at hs
  split at hs
  · simp at hs
  next act ha =>
  split at hs
  · simp at hs
  next hchild =>
  have hlt : a < s.acts.length := lt_of_getElem?_some ha
  have hpca := pcAt_of ha
  have hw := h a
  rw [hpca] at hw
  have hc : act.child = none := by
    cases hcc : act.child <;> simp_all
  split at hs
  all_goals (try (simp at hs; done))
  all_goals (try (exact wf_stSpawn h act ha hc _ _ (by assumption) hs0))
  all_goals (try dsimp only at hs)
  all_goals (repeat' split at hs)
  all_goals (try (simp at hs; done))
  all_goals (try (simp only [Option.some.injEq, Prod.mk.injEq] at hs; obtain ⟨rfl, _⟩ := hs))
  all_goals (try (rw [‹act.pc = _›] at hw))
  all_goals (first
      | ((refine WfAll.goto h ?_ ?_) <;> pwf_side)
      | ((refine WfAll.setAct h ?_ ?_) <;> pwf_side)
      | skip)

end Desync
