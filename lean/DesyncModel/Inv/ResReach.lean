/-
I_result holds in every reachable state.
-/
import DesyncModel.Inv.ResStep
import DesyncModel.Inv.HolderReach

namespace Desync
open Gen

theorem ResInv.same {s X : State} (h : ResInv s) (hj : X.jobs = s.jobs)
    (hpc : ∀ b j, j ∈ (X.pcAt b).suspSigs → j ∈ (s.pcAt b).suspSigs)
    (hf : ∀ (r : Nat) (fu' : Fut), X.futs[r]? = some fu' → fu'.res = .ok → ∃ fu : Fut, s.futs[r]? = some fu ∧ fu.res = .ok) : ResInv X := by
  constructor
  · intro b j hb
    rw [hj]; exact h.sus b j (hpc b j hb)
  · intro r fu' h1 h2
    obtain ⟨fu, h3, h4⟩ := hf r fu' h1 h2
    rw [hj]; exact h.ok r fu h3 h4

theorem ok_append {s : State} {l : List Fut} (hl : ∀ fu, fu ∈ l → fu.res ≠ .ok) :
    ∀ (r : Nat) (fu' : Fut), (s.futs ++ l)[r]? = some fu' → fu'.res = .ok → ∃ fu : Fut, s.futs[r]? = some fu ∧ fu.res = .ok := by
  intro r fu' h1 h2
  by_cases hlt : r < s.futs.length
  · rw [List.getElem?_append_left hlt] at h1; exact ⟨fu', h1, h2⟩
  · rw [List.getElem?_append_right (Nat.le_of_not_lt hlt)] at h1
    exact absurd h2 (hl fu' (List.mem_of_getElem? h1))

theorem resInv_of_empty (s : State) (ha : s.acts = []) (hf : s.futs = []) : ResInv s := by
  constructor
  · intro b j hb; simp [State.pcAt, ha, Pc.suspSigs] at hb
  · intro r fu h1; rw [hf] at h1; simp at h1

theorem resInv_setChild {s : State} (h : ResInv s) (p : Nat) (c : Option Nat) :
    ResInv (match s.acts[p]? with | some pv => s.setAct p { pv with child := c } | none => s) := by
  split
  · next pv hpv =>
    exact ResInv.same h rfl (fun b j hb => by rw [pcAt_setAct_samepc _ p pv { pv with child := c } hpv rfl] at hb; exact hb) (fun r fu' h1 h2 => ⟨fu', h1, h2⟩)
  · exact h

theorem resInv_addAct {s0 : State} (h0 : ResInv s0) (t : Nat) (parent : Option Nat) (pc : Pc) (once : Bool) (hq : pc.suspSigs = []) :
    ResInv (addAct s0 t parent pc once).1 := by
  let n : Act := { thread := t, pc := pc, parent := parent, child := none, woken := false, result := none, mode := .await, once := once }
  have h1 : ResInv ({ s0 with acts := s0.acts ++ [n], nextOp := s0.nextOp + 1 } : State) := by
    refine ResInv.same h0 rfl ?_ (fun r fu' h1 h2 => ⟨fu', h1, h2⟩)
    intro b j hb
    simp only [State.pcAt] at hb ⊢
    by_cases hlt : b < s0.acts.length
    · rw [List.getElem?_append_left hlt] at hb; exact hb
    · by_cases hbe : b = s0.acts.length
      · subst hbe; simp [n, hq] at hb
      · have h2 : (s0.acts ++ [n])[b]? = none := by simp; omega
        rw [h2] at hb; simp [Pc.suspSigs] at hb
  unfold addAct
  cases parent with
  | none => exact h1
  | some p =>
    simp only
    have := resInv_setChild h1 p (some s0.acts.length)
    split
    · next pv hpv => simp only [n, hpv] at this; exact this
    · exact h1

theorem resInv_invoke {s s' : State} {t a : Nat} {parent : Option Nat} {c : Call} (h : ResInv s)
    (hs : invoke s t parent c = some (s', a)) : ResInv s' := by
  unfold invoke at hs
  cases c <;> simp only at hs
  all_goals (repeat' split at hs)
  all_goals (try (simp at hs; done))
  all_goals (
    have hs' := congrArg Prod.fst (Option.some.inj hs)
    simp only at hs'
    subst hs'
    refine resInv_addAct ?_ t parent _ _ (by simp [Pc.suspSigs])
    refine ResInv.same h ?_ (fun b j hb => ?_) ?_
    · first | rfl | (simp; done)
    · first | exact hb | (simpa [State.pcAt] using hb)
    · intro r fu' h1 h2
      try simp only [futs_setGate] at h1
      first
      | exact ⟨fu', h1, h2⟩
      | (refine ok_append ?_ r fu' h1 h2
         intro fu hfu
         first
         | (simp only [List.mem_singleton] at hfu; subst hfu; simp)
         | (simp only [List.mem_cons, List.not_mem_nil, or_false] at hfu; rcases hfu with rfl | rfl <;> simp)))

theorem resInv_goto_env {s : State} {a : Nat} {act : Act} (h : ResInv s) (ha : s.acts[a]? = some act) (pc' : Pc)
    (hsub : ∀ j, j ∈ pc'.suspSigs → j ∈ act.pc.suspSigs) : ResInv (s.goto a pc') := by
  refine ResInv.same h (by simp) ?_ (fun r fu' h1 h2 => ⟨fu', by simpa using h1, h2⟩)
  intro b j hb
  by_cases hba : b = a
  · subst hba
    rw [pcAt_goto_self _ (lt_of_getElem?_some ha)] at hb
    rw [pcAt_of ha]; exact hsub j hb
  · rw [pcAt_goto_ne _ hba] at hb; exact hb

theorem resInv_bodyEnd {s s' : State} {a : Nat} {o : Obs} (h : ResInv s) (hs : bodyEnd s a = some (s', o)) : ResInv s' := by
  unfold bodyEnd at hs
  split at hs
  · next act ha =>
    split at hs
    · simp at hs
    · split at hs
      · next op k hpc =>
        obtain ⟨rfl, _⟩ := Prod.mk.inj (Option.some.inj hs)
        exact resInv_goto_env h ha _ (by intro j hj; rw [hpc]; simpa [Pc.suspSigs] using hj)
      · simp at hs
  · simp at hs

theorem resInv_spuriousUnpark {s s' : State} {a : Nat} {o : Obs} (h : ResInv s) (hs : spuriousUnpark s a = some (s', o)) : ResInv s' := by
  unfold spuriousUnpark at hs
  split at hs
  · next act ha =>
    split at hs
    · next q j k hpc =>
      obtain ⟨rfl, _⟩ := Prod.mk.inj (Option.some.inj hs)
      exact resInv_goto_env h ha _ (by intro j' hj; rw [hpc]; simpa [Pc.suspSigs] using hj)
    · simp at hs
  · simp at hs

theorem resInv_spuriousPoll {s s' : State} {a : Nat} (h : ResInv s) (hs : spuriousPoll s a = some s') : ResInv s' := by
  unfold spuriousPoll at hs
  split at hs
  · next act ha =>
    split at hs
    · next f hpc => cases Option.some.inj hs; exact resInv_goto_env h ha _ (by intro j hj; simp [Pc.suspSigs] at hj)
    · next u hpc => cases Option.some.inj hs; exact resInv_goto_env h ha _ (by intro j hj; simp [Pc.suspSigs] at hj)
    · simp at hs
  · simp at hs

theorem resInv_ret {s s' : State} {a r : Nat} (h : ResInv s) (hs : retStep s a = some (s', r)) : ResInv s' := by
  unfold retStep at hs
  split at hs
  · next act ha =>
    split at hs
    · next hpc =>
      obtain ⟨rfl, _⟩ := Prod.mk.inj (Option.some.inj hs)
      have h1 : ResInv (s.setAct a { act with pc := .dead }) := by
        refine ResInv.same h rfl ?_ (fun r fu' h1 h2 => ⟨fu', h1, h2⟩)
        intro b j hb
        by_cases hba : b = a
        · subst hba
          rw [pcAt_setAct_self _ (lt_of_getElem?_some ha)] at hb
          simp [Pc.suspSigs] at hb
        · rw [pcAt_setAct_ne _ hba] at hb; exact hb
      split
      · next p hp => exact resInv_setChild h1 p none
      · exact h1
    · simp at hs
  · simp at hs

/-- **I_result holds in every reachable state.** -/
theorem resInv_reachable {s : State} (hr : Reachable s) : ResInv s := by
  induction hr with
  | init nq ng max => exact resInv_of_empty _ (by simp [initState]) (by simp [initState])
  | initP ps ng max => exact resInv_of_empty _ (by simp [initStateP, initState]) (by simp [initStateP, initState])
  | step l hprev hstep ih =>
    cases l with
    | act a =>
      simp only [next, Option.map_eq_some_iff] at hstep
      obtain ⟨⟨s1, o⟩, hs, rfl⟩ := hstep
      exact resInv_stepAct ih hs
    | invoke t parent c =>
      simp only [next] at hstep
      split at hstep
      · simp only [Option.map_eq_some_iff] at hstep
        obtain ⟨⟨s1, a⟩, hs, rfl⟩ := hstep
        exact resInv_invoke ih hs
      · simp at hstep
    | bodyEnd a =>
      simp only [next, Option.map_eq_some_iff] at hstep
      obtain ⟨⟨s1, o⟩, hs, rfl⟩ := hstep
      exact resInv_bodyEnd ih hs
    | ret a =>
      simp only [next, Option.map_eq_some_iff] at hstep
      obtain ⟨⟨s1, r⟩, hs, rfl⟩ := hstep
      exact resInv_ret ih hs
    | spuriousUnpark a =>
      simp only [next, Option.map_eq_some_iff] at hstep
      obtain ⟨⟨s1, o⟩, hs, rfl⟩ := hstep
      exact resInv_spuriousUnpark ih hs
    | spuriousPoll a =>
      simp only [next] at hstep
      exact resInv_spuriousPoll ih hstep

end Desync
