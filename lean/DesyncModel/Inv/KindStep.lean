/-
`KindInv` is preserved by every internal step, and holds in every reachable state.
-/
import DesyncModel.Inv.Kind

namespace Desync
open Gen

/-! ### two-state fact 1: where the jobs of the next state come from -/

set_option hygiene false in
macro "km_side" : tactic => `(tactic| first
  | rfl | assumption | (simp; done)
  | (intro x hx; simp only [List.mem_singleton] at hx; subst hx;
     first
       | (left; rfl)
       | (right; rw [hpca, ‹act.pc = _›]; simp [Pc.dsPushes])))

set_option hygiene false in
macro "km_shape" : tactic => `(tactic| first
  | exact KindMono.refl _ _
  | (refine KindMono.same ?_; first | rfl | (simp; done))
  | (apply KindMono.setJob_upd <;> km_side)
  | (apply KindMono.append_upd <;> km_side)
  | (apply KindMono.setQ_of; apply KindMono.append_upd <;> km_side)
  | (apply KindMono.pushBack_of; apply KindMono.append_upd <;> km_side)
  | (apply KindMono.setHolder_of; apply KindMono.append_upd <;> km_side)
  | (exact KindMono.trans_same (by simp) (KindMono.setJobPh _ _ _ _) (by simp))
  | exact KindMono.setJobPh _ _ _ _
  | exact KindMono.dequeue _ _ _ _
  | (refine KindMono.upd (KindMono.setJobPh _ _ _ _) ?_; first | rfl | (simp; done))
  | (refine KindMono.upd (KindMono.dequeue _ _ _ _) ?_; first | rfl | (simp; done)))

set_option maxHeartbeats 4000000 in
set_option maxRecDepth 8000 in
theorem kindMono_stepAct {s s' : State} {a : Nat} {o : Obs} (hs : stepAct s a = some (s', o)) : KindMono s s' a := by
  unfold stepAct at hs
  split at hs
  · simp at hs
  next act ha =>
  have hpca := pcAt_of ha
  split at hs
  · simp at hs
  next hchild =>
  split at hs
  all_goals (try (simp at hs; done))
  all_goals (try dsimp only at hs)
  all_goals (repeat' split at hs)
  all_goals (try (simp at hs; done))
  all_goals (try (simp only [Option.some.injEq, Prod.mk.injEq] at hs; obtain ⟨rfl, _⟩ := hs))
  all_goals (first
      | km_shape
      | (apply KindMono.goto_of; km_shape)
      | (apply KindMono.setAct_of; km_shape)
      | (apply KindMono.goto_of; apply KindMono.setHolder_of; km_shape)
      | (apply KindMono.goto_of; apply KindMono.setHolder_of; apply KindMono.setQState_of; km_shape)
      | skip)

/-! ### two-state fact 2: no step adds a `schedule_job_desync` in progress -/

def DsSub (s X : State) : Prop :=
  ∀ (b q : Nat) (kind : JobKind), (q, kind) ∈ (X.pcAt b).dsPushes → (q, kind) ∈ (s.pcAt b).dsPushes

theorem DsSub.goto {s X : State} {a : Nat} {pc' : Pc} (hX : ∀ b, X.pcAt b = s.pcAt b)
    (hpc : ∀ x, x ∈ pc'.dsPushes → x ∈ (s.pcAt a).dsPushes) : DsSub s (X.goto a pc') := by
  intro b q kind hb
  rw [pcAt_goto] at hb
  split at hb
  · next hab => rw [← hab.1]; exact hpc _ hb
  · rw [hX] at hb; exact hb

theorem DsSub.setAct {s X : State} {a : Nat} {v : Act} (hX : ∀ b, X.pcAt b = s.pcAt b)
    (hpc : ∀ x, x ∈ v.pc.dsPushes → x ∈ (s.pcAt a).dsPushes) : DsSub s (X.setAct a v) := by
  intro b q kind hb
  rw [pcAt_setAct] at hb
  split at hb
  · next hab => rw [← hab.1]; exact hpc _ hb
  · rw [hX] at hb; exact hb

theorem DsSub.same {s X : State} (hX : ∀ b, X.pcAt b = s.pcAt b) : DsSub s X := by
  intro b q kind hb; rw [hX] at hb; exact hb

theorem dsSub_append {s X : State} {n : Act} (hacts : X.acts = s.acts ++ [n]) (hn : n.pc.dsPushes = []) : DsSub s X := by
  intro b q kind hb
  simp only [State.pcAt, hacts] at hb ⊢
  by_cases hlt : b < s.acts.length
  · rw [List.getElem?_append_left hlt] at hb; exact hb
  · by_cases hbe : b = s.acts.length
    · subst hbe; simp [hn] at hb
    · have : (s.acts ++ [n])[b]? = none := by simp; omega
      rw [this] at hb; simp [Pc.dsPushes] at hb

theorem ds_stSpawn {s s' : State} {a : Nat} {o : Obs} (act : Act) (ha : s.acts[a]? = some act) (hc : act.child = none) (m : Nat) (k : Pc)
    (hpc : act.pc = .stSpawn m k) (hs : stepAct s a = some (s', o)) : DsSub s s' := by
  have hlt : a < s.acts.length := lt_of_getElem?_some ha
  have hpca := pcAt_of ha
  unfold stepAct at hs
  simp only [ha, hc, hpc, Option.isSome_none, Bool.false_eq_true, ↓reduceIte] at hs
  split at hs
  · simp at hs
  · split at hs
    · simp only [Option.some.injEq, Prod.mk.injEq] at hs; obtain ⟨rfl, _⟩ := hs
      intro b q kind hb
      rw [pcAt_goto] at hb
      split at hb
      · next hab => rw [← hab.1, hpca, hpc]; simpa [Pc.dsPushes] using hb
      · exact dsSub_append (s := s) rfl (by simp [Pc.dsPushes]) b q kind hb
    · simp only [Option.some.injEq, Prod.mk.injEq] at hs; obtain ⟨rfl, _⟩ := hs
      refine DsSub.goto (fun b => rfl) ?_
      intro x hx; rw [hpca, hpc]; simpa [Pc.dsPushes] using hx

set_option hygiene false in
macro "ds_side" : tactic => `(tactic| first
  | (intro b; simp only [pcAt_setQ, pcAt_setJob, pcAt_setHolder, pcAt_setWoken, pcAt_notify, pcAt_setPThr, pcAt_setFut, pcAt_setGate,
                         pcAt_takeReady, pcAt_dropReady, pcAt_setJobPh, pcAt_pushFront, pcAt_pushBack, pcAt_setQState, pcAt_dequeue, pcAt_setSf, pcAt_newJob]; first | done | rfl)
  | (intro b; first | rfl | (simp [State.pcAt, dequeue_acts]; done))
  | (intro x hx; rw [hpca, ‹act.pc = _›];
     first
       | (simpa [Pc.dsPushes] using hx)
       | (simp only [Pc.dsPushes, dsPushes_ctxReady, dsPushes_ctxPending] at hx ⊢; first | exact hx | (split at hx <;> simp_all) | (simp_all; done))
       | (cases ‹Ctx› <;> simp_all [Pc.dsPushes, ctxReady, ctxPending])))

set_option maxHeartbeats 4000000 in
set_option maxRecDepth 8000 in
theorem dsSub_stepAct {s s' : State} {a : Nat} {o : Obs} (hs : stepAct s a = some (s', o)) : DsSub s s' := by
  have hs0 := hs
  unfold stepAct at hs
  split at hs
  · simp at hs
  next act ha =>
  split at hs
  · simp at hs
  next hchild =>
  have hlt : a < s.acts.length := lt_of_getElem?_some ha
  have hpca := pcAt_of ha
  have hc : act.child = none := by
    cases hcc : act.child <;> simp_all
  split at hs
  all_goals (try (simp at hs; done))
  all_goals (try (exact ds_stSpawn act ha hc _ _ (by assumption) hs0))
  all_goals (try dsimp only at hs)
  all_goals (repeat' split at hs)
  all_goals (try (simp at hs; done))
  all_goals (try (simp only [Option.some.injEq, Prod.mk.injEq] at hs; obtain ⟨rfl, _⟩ := hs))
  all_goals (first
      | ((refine DsSub.goto ?_ ?_) <;> ds_side)
      | ((refine DsSub.setAct ?_ ?_) <;> ds_side)
      | (intro b q kind hb; rw [pcAt_setQ] at hb;
         exact DsSub.goto (s := s) (X := s) (fun _ => rfl) (by intro x hx; simp [Pc.dsPushes] at hx) b q kind hb)
      | skip)

/-! ### the invariant -/

theorem kindInv_of_two {s s' : State} {a : Nat} (h : KindInv s) (hF : FutsMono s.futs s'.futs) (hS : SfsMono s.sfs s'.sfs)
    (hm : KindMono s s' a) (hd : DsSub s s') : KindInv s' := by
  refine ⟨?_, ?_⟩
  · intro b q kind hb
    exact (h.pcs b q kind (hd b q kind hb)).mono hF hS
  · intro j jb' hj
    rcases hm j jb' hj with ⟨jb, h1, h2, h3⟩ | h1 | h1
    · rw [h2, h3]; exact (h.jobs j jb h1).mono hF hS
    · exact KindOk.of_plain h1
    · exact (h.pcs a _ _ h1).mono hF hS

theorem kindInv_stepAct {s s' : State} {a : Nat} {o : Obs} (h : KindInv s) (hs : stepAct s a = some (s', o)) : KindInv s' :=
  kindInv_of_two h (futMono_stepAct hs).1 (futMono_stepAct hs).2 (kindMono_stepAct hs) (dsSub_stepAct hs)

end Desync
