/-
Two-state facts about the job table, for every internal step: a job is never removed, its kind and its queue never change,
`begun` and `ended` are never reset.
-/
import DesyncModel.Inv.OwnedReach
namespace Desync
open Gen

def JobMono (s X : State) : Prop :=
  ∀ (j : Nat) (jb : Job), s.jobs[j]? = some jb →
    ∃ jb', X.jobs[j]? = some jb' ∧ jb'.kind = jb.kind ∧ jb'.q = jb.q ∧ (jb.begun = true → jb'.begun = true) ∧ (jb.ended = true → jb'.ended = true)

theorem JobMono.refl (s : State) : JobMono s s := fun _ jb h => ⟨jb, h, rfl, rfl, id, id⟩
theorem JobMono.same {s X : State} (h : X.jobs = s.jobs) : JobMono s X := fun j jb hj => ⟨jb, by rw [h]; exact hj, rfl, rfl, id, id⟩
theorem JobMono.upd {s X Y : State} (h : JobMono s X) (hy : Y.jobs = X.jobs) : JobMono s Y := by
  intro j jb hj
  obtain ⟨jb', h1, h2⟩ := h j jb hj
  exact ⟨jb', by rw [hy]; exact h1, h2⟩
theorem JobMono.trans {s X Y : State} (h1 : JobMono s X) (h2 : JobMono X Y) : JobMono s Y := by
  intro j jb hj
  obtain ⟨jb1, a1, a2, a3, a4, a5⟩ := h1 j jb hj
  obtain ⟨jb2, b1, b2, b3, b4, b5⟩ := h2 j jb1 a1
  exact ⟨jb2, b1, b2.trans a2, b3.trans a3, fun h => b4 (a4 h), fun h => b5 (a5 h)⟩

theorem JobMono.setJob {s : State} {j : Nat} {b v : Job} (hb : s.jobs[j]? = some b) (hk : v.kind = b.kind) (hq : v.q = b.q)
    (hbg : b.begun = true → v.begun = true) (he : b.ended = true → v.ended = true) : JobMono s (s.setJob j v) := by
  intro j' jb hj
  have hlt : j < s.jobs.length := (List.getElem?_eq_some_iff.mp hb).1
  by_cases e : j' = j
  · subst e
    rw [hb] at hj; cases hj
    exact ⟨v, by simp [State.setJob, hlt], hk, hq, hbg, he⟩
  · refine ⟨jb, ?_, rfl, rfl, id, id⟩
    simp only [State.setJob, List.getElem?_set]
    have : ¬ j = j' := fun x => e x.symm
    simp [this]; exact hj

theorem JobMono.setJobPh (s : State) (j : Nat) (ph : Phase) : JobMono s (s.setJobPh j ph) := by
  unfold State.setJobPh
  split
  · next v hv => exact JobMono.setJob (v := { v with ph := ph }) hv rfl rfl id id
  · exact JobMono.refl s

theorem JobMono.append {s X : State} {l : List Job} (hX : X.jobs = s.jobs ++ l) : JobMono s X := by
  intro j jb hj
  have hlt : j < s.jobs.length := (List.getElem?_eq_some_iff.mp hj).1
  exact ⟨jb, by rw [hX, List.getElem?_append_left hlt]; exact hj, rfl, rfl, id, id⟩

theorem JobMono.dequeue (s : State) (q a : Nat) : JobMono s (s.dequeue q a).1 := by
  cases hd : (s.dequeue q a).2 with
  | none => rw [Desync.dequeue_none hd]; exact JobMono.refl s
  | some j =>
    obtain ⟨v, rest, hv, hjobs, hX⟩ := dequeue_some hd
    rw [hX]
    exact JobMono.trans (JobMono.same (X := s.setQ q { v with jobs := rest }) rfl) (JobMono.setJobPh _ j _)

theorem JobMono.goto_of {s Y : State} {a : Nat} {pc : Pc} (h : JobMono s Y) : JobMono s (Y.goto a pc) := JobMono.upd h (by simp)
theorem JobMono.setAct_of {s Y : State} {a : Nat} {v : Act} (h : JobMono s Y) : JobMono s (Y.setAct a v) := JobMono.upd h (by simp)
theorem JobMono.setHolder_of {s Y : State} {q : Nat} {x : Option Nat} (h : JobMono s Y) : JobMono s (Y.setHolder q x) := JobMono.upd h (by simp)

theorem JobMono.setQState_of {s Y : State} {q : Nat} {st : QState} (h : JobMono s Y) : JobMono s (Y.setQState q st) := JobMono.upd h (by simp)
theorem JobMono.setQ_of {s Y : State} {q : Nat} {v : JobQ} (h : JobMono s Y) : JobMono s (Y.setQ q v) := JobMono.upd h (by simp)
theorem JobMono.pushBack_of {s Y : State} {q j : Nat} (h : JobMono s Y) : JobMono s (Y.pushBack q j) := JobMono.upd h (by simp)

theorem JobMono.setJob_upd {s Z : State} {j : Nat} {b v : Job} (hZ : Z.jobs = (s.setJob j v).jobs) (hb : s.jobs[j]? = some b) (hk : v.kind = b.kind) (hq : v.q = b.q)
    (hbg : b.begun = true → v.begun = true) (he : b.ended = true → v.ended = true) : JobMono s Z :=
  JobMono.upd (JobMono.setJob hb hk hq hbg he) hZ

theorem JobMono.append_upd {s Z : State} {l : List Job} (hZ : Z.jobs = s.jobs ++ l) : JobMono s Z := JobMono.append hZ

set_option hygiene false in
macro "jm_side" : tactic => `(tactic| first | rfl | assumption | exact id | (exact fun _ => rfl) | (simp; done))

set_option hygiene false in
macro "jm_shape" : tactic => `(tactic| first
  | exact JobMono.refl _
  | (refine JobMono.same ?_; first | rfl | (simp; done))
  | (apply JobMono.setJob_upd <;> jm_side)
  | (apply JobMono.append_upd; rfl)
  | (apply JobMono.setQ_of; apply JobMono.append_upd; rfl)
  | (apply JobMono.pushBack_of; apply JobMono.append_upd; rfl)
  | (apply JobMono.setHolder_of; apply JobMono.append_upd; rfl)
  | (exact JobMono.trans (JobMono.same (by simp)) (JobMono.setJobPh _ _ _))
  | exact JobMono.setJobPh _ _ _
  | exact JobMono.dequeue _ _ _
  | (refine JobMono.upd (JobMono.setJobPh _ _ _) ?_; first | rfl | (simp; done))
  | (refine JobMono.upd (JobMono.dequeue _ _ _) ?_; first | rfl | (simp; done)))

set_option maxHeartbeats 4000000 in
set_option maxRecDepth 8000 in
/-- **every internal step keeps every job, its kind and its queue, and never resets `begun` or `ended`** -/
theorem jobMono_stepAct {s s' : State} {a : Nat} {o : Obs} (hs : stepAct s a = some (s', o)) : JobMono s s' := by
  unfold stepAct at hs
  split at hs
  · simp at hs
  next act ha =>
  split at hs
  · simp at hs
  next hchild =>
  split at hs
  all_goals (try (simp at hs; done))
  all_goals (try dsimp only at hs)
  all_goals (repeat' split at hs)
  all_goals (try (simp at hs; done))
  all_goals (try (simp only [Option.some.injEq, Prod.mk.injEq] at hs; obtain ⟨rfl, _⟩ := hs))
  all_goals (first
      | jm_shape
      | (apply JobMono.goto_of; jm_shape)
      | (apply JobMono.setAct_of; jm_shape)
      | (apply JobMono.goto_of; apply JobMono.setHolder_of; jm_shape)
      | (apply JobMono.goto_of; apply JobMono.setHolder_of; apply JobMono.setQState_of; jm_shape)
      | skip)

end Desync
