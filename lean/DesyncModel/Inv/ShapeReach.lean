/-
`ShapeInv` holds in every reachable state (every kind of call, the task-context ones included).
-/
import DesyncModel.Inv.ShapeStep

namespace Desync
open Gen

theorem shapeInv_of_empty (s : State) (ha : s.acts = []) (hd : s.doubles = []) (hl : s.latches = []) : ShapeInv s := by
  refine ⟨?_, ?_, ?_⟩
  · intro b; simp [State.pcAt, ha, Pc.ws]
  · intro d w1 w2 h; rw [hd] at h; simp at h
  · intro l st w h; rw [hl] at h; simp at h

theorem shapeInv_setChild {s : State} (h : ShapeInv s) (p : Nat) (c : Option Nat) :
    ShapeInv (match s.acts[p]? with | some pv => s.setAct p { pv with child := c } | none => s) := by
  split
  · next pv hpv =>
    exact ShapeInv.same h (fun b => pcAt_setAct_samepc _ p pv { pv with child := c } hpv rfl b) rfl rfl
  · exact h

theorem shapeInv_addAct {s0 : State} (h0 : ShapeInv s0) (t : Nat) (parent : Option Nat) (pc : Pc) (once : Bool) (hq : pc.ws = true) :
    ShapeInv (addAct s0 t parent pc once).1 := by
  let n : Act := { thread := t, pc := pc, parent := parent, child := none, woken := false, result := none, mode := .await, once := once }
  have h1 : ShapeInv ({ s0 with acts := s0.acts ++ [n], nextOp := s0.nextOp + 1 } : State) :=
    ⟨ws_pcAt_append (n := n) h0.ws rfl hq, h0.dbl, h0.lat⟩
  unfold addAct
  cases parent with
  | none => exact h1
  | some p =>
    simp only
    have := shapeInv_setChild h1 p (some s0.acts.length)
    split
    · next pv hpv => simp only [n, hpv] at this; exact this
    · exact h1

theorem shapeInv_invoke {s s' : State} {t a : Nat} {parent : Option Nat} {c : Call} (h : ShapeInv s)
    (hs : invoke s t parent c = some (s', a)) : ShapeInv s' := by
  unfold invoke at hs
  cases c <;> simp only at hs
  all_goals (repeat' split at hs)
  all_goals (try (simp at hs; done))
  all_goals (
    have hs' := congrArg Prod.fst (Option.some.inj hs)
    simp only at hs'
    subst hs'
    refine shapeInv_addAct ?_ t parent _ _ (by simp [Pc.ws])
    first
      | exact h
      | exact ShapeInv.same h (fun b => rfl) rfl rfl
      | (refine ShapeInv.same h (fun b => ?_) ?_ ?_ <;> first | rfl | (simp; done) | (split <;> (try split) <;> first | rfl | (simp; done))))

theorem shapeInv_goto_env {s : State} {a : Nat} {act : Act} (h : ShapeInv s) (ha : s.acts[a]? = some act) (pc' : Pc)
    (hnew : act.pc.ws = true → pc'.ws = true) : ShapeInv (s.goto a pc') :=
  ShapeInv.goto h (fun b => rfl) rfl rfl (hnew (by rw [← pcAt_of ha]; exact h.ws a))

theorem shapeInv_bodyEnd {s s' : State} {a : Nat} {o : Obs} (h : ShapeInv s) (hs : bodyEnd s a = some (s', o)) : ShapeInv s' := by
  unfold bodyEnd at hs
  split at hs
  · next act ha =>
    split at hs
    · simp at hs
    · split at hs
      · next op k hpc =>
        obtain ⟨rfl, _⟩ := Prod.mk.inj (Option.some.inj hs)
        exact shapeInv_goto_env h ha _ (by rw [hpc]; intro hw; simpa [Pc.ws] using hw)
      · simp at hs
  · simp at hs

theorem shapeInv_spuriousUnpark {s s' : State} {a : Nat} {o : Obs} (h : ShapeInv s) (hs : spuriousUnpark s a = some (s', o)) : ShapeInv s' := by
  unfold spuriousUnpark at hs
  split at hs
  · next act ha =>
    split at hs
    · next q j k hpc =>
      obtain ⟨rfl, _⟩ := Prod.mk.inj (Option.some.inj hs)
      exact shapeInv_goto_env h ha _ (by rw [hpc]; intro hw; simpa [Pc.ws] using hw)
    · simp at hs
  · simp at hs

theorem shapeInv_spuriousPoll {s s' : State} {a : Nat} (h : ShapeInv s) (hs : spuriousPoll s a = some s') : ShapeInv s' := by
  unfold spuriousPoll at hs
  split at hs
  · next act ha =>
    split at hs
    · next f hpc => cases Option.some.inj hs; exact shapeInv_goto_env h ha _ (fun _ => by simp [Pc.ws])
    · next u hpc => cases Option.some.inj hs; exact shapeInv_goto_env h ha _ (fun _ => by simp [Pc.ws])
    · simp at hs
  · simp at hs

theorem shapeInv_ret {s s' : State} {a r : Nat} (h : ShapeInv s) (hs : retStep s a = some (s', r)) : ShapeInv s' := by
  unfold retStep at hs
  split at hs
  · next act ha =>
    split at hs
    · next hpc =>
      obtain ⟨rfl, _⟩ := Prod.mk.inj (Option.some.inj hs)
      have h1 : ShapeInv (s.setAct a { act with pc := .dead }) :=
        ShapeInv.setAct h (fun b => rfl) rfl rfl (by simp [Pc.ws])
      split
      · next p hp => exact shapeInv_setChild h1 p none
      · exact h1
    · simp at hs
  · simp at hs

/-- **The waker-shape invariant holds in every reachable state.** -/
theorem shapeInv_reachable {s : State} (hr : Reachable s) : ShapeInv s := by
  induction hr with
  | init nq ng max => exact shapeInv_of_empty _ (by simp [initState]) (by simp [initState]) (by simp [initState])
  | initP ps ng max => exact shapeInv_of_empty _ (by simp [initStateP, initState]) (by simp [initStateP, initState]) (by simp [initStateP, initState])
  | step l hprev hstep ih =>
    cases l with
    | act a =>
      simp only [next, Option.map_eq_some_iff] at hstep
      obtain ⟨⟨s1, o⟩, hs, rfl⟩ := hstep
      exact shapeInv_stepAct ih hs
    | invoke t parent c =>
      simp only [next] at hstep
      split at hstep
      · simp only [Option.map_eq_some_iff] at hstep
        obtain ⟨⟨s1, a⟩, hs, rfl⟩ := hstep
        exact shapeInv_invoke ih hs
      · simp at hstep
    | bodyEnd a =>
      simp only [next, Option.map_eq_some_iff] at hstep
      obtain ⟨⟨s1, o⟩, hs, rfl⟩ := hstep
      exact shapeInv_bodyEnd ih hs
    | ret a =>
      simp only [next, Option.map_eq_some_iff] at hstep
      obtain ⟨⟨s1, r⟩, hs, rfl⟩ := hstep
      exact shapeInv_ret ih hs
    | spuriousUnpark a =>
      simp only [next, Option.map_eq_some_iff] at hstep
      obtain ⟨⟨s1, o⟩, hs, rfl⟩ := hstep
      exact shapeInv_spuriousUnpark ih hs
    | spuriousPoll a =>
      simp only [next] at hstep
      exact shapeInv_spuriousPoll ih hstep

end Desync
