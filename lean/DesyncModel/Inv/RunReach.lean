/-
RunInv holds in every reachable state; consequence: the closure of an operation is invoked at most once.
-/
import DesyncModel.Inv.RunStep
namespace Desync
open Gen

theorem runInv_init (nq ng max : Nat) : RunInv (initState nq ng max) := by
  refine ⟨?_, ?_⟩
  · intro a j q hr hs; simp [initState, State.jobRan] at hs
  · intro q l j hl hm
    simp only [initState, State.qjobs, List.getElem?_replicate] at hl
    split at hl <;> simp at hl
    subst hl; simp at hm

theorem runInv_initP (ps : List Bool) (ng max : Nat) : RunInv (initStateP ps ng max) := by
  refine ⟨?_, ?_⟩
  · intro a j q hr hs; simp [initStateP, initState, State.jobRan] at hs
  · intro q l j hl hm; rw [qjobs_initP hl] at hm; cases hm

theorem runInv_setChild {s : State} (h : RunInv s) (p : Nat) (c : Option Nat) :
    RunInv (match s.acts[p]? with | some pv => s.setAct p { pv with child := c } | none => s) := by
  split
  · next pv hpv =>
    exact RunInv.of_eq h (fun b => pcAt_setAct_samepc _ p pv { pv with child := c } hpv rfl b) (fun _ => rfl) (fun _ => rfl)
  · exact h

theorem runInv_addAct {s s0 : State} (h : RunInv s) (t : Nat) (parent : Option Nat) (pc : Pc) (once : Bool)
    (hpc2 : pc.runningQ = none) (hacts : s0.acts = s.acts) (hj : s0.jobs = s.jobs) (hq : s0.qs = s.qs) :
    RunInv (addAct s0 t parent pc once).1 := by
  have h0 : RunInv s0 := RunInv.congr h hacts hj hq
  let n : Act := { thread := t, pc := pc, parent := parent, child := none, woken := false, result := none, mode := .await, once := once }
  have h1 : RunInv ({ s0 with acts := s0.acts ++ [n], nextOp := s0.nextOp + 1 } : State) := RunInv.append_act h0 rfl hpc2 rfl rfl
  unfold addAct
  cases parent with
  | none => exact h1
  | some p =>
    simp only
    have := runInv_setChild h1 p (some s0.acts.length)
    split
    · next pv hpv => simp only [n, hpv] at this; exact this
    · exact h1

theorem runInv_invoke {s s' : State} {t a : Nat} {parent : Option Nat} {c : Call} (h : RunInv s)
    (hs : invoke s t parent c = some (s', a)) : RunInv s' := by
  unfold invoke at hs
  cases c <;> simp only at hs
  all_goals (repeat' split at hs)
  all_goals (try (simp at hs; done))
  all_goals (
    have hs' := congrArg Prod.fst (Option.some.inj hs)
    simp only at hs'
    subst hs'
    refine runInv_addAct h t parent _ _ (by simp [Pc.runningQ]) ?_ ?_ ?_ <;>
      (first | rfl | (split <;> (try split) <;> rfl)))

theorem runInv_bodyEnd {s s' : State} {a : Nat} {o : Obs} (h : RunInv s) (hs : bodyEnd s a = some (s', o)) : RunInv s' := by
  unfold bodyEnd at hs
  split at hs
  · next act ha =>
    split at hs
    · simp at hs
    · split at hs
      · next op k hpc =>
        obtain ⟨rfl, _⟩ := Prod.mk.inj (Option.some.inj hs)
        exact RunInv.frame h (fun _ => rfl) (fun _ => rfl) (fun _ => rfl) (Or.inr ⟨by rw [pcAt_of ha, hpc]; rfl, by rw [pcAt_of ha, hpc]; exact id⟩)
      · simp at hs
  · simp at hs

theorem runInv_spuriousUnpark {s s' : State} {a : Nat} {o : Obs} (h : RunInv s) (hs : spuriousUnpark s a = some (s', o)) : RunInv s' := by
  unfold spuriousUnpark at hs
  split at hs
  · next act ha =>
    split at hs
    · next q j k hpc =>
      obtain ⟨rfl, _⟩ := Prod.mk.inj (Option.some.inj hs)
      exact RunInv.frame h (fun _ => rfl) (fun _ => rfl) (fun _ => rfl) (Or.inr ⟨by rw [pcAt_of ha, hpc]; rfl, by rw [pcAt_of ha, hpc]; exact id⟩)
    · simp at hs
  · simp at hs

theorem runInv_spuriousPoll {s s' : State} {a : Nat} (h : RunInv s) (hs : spuriousPoll s a = some s') : RunInv s' := by
  unfold spuriousPoll at hs
  split at hs
  · next act ha =>
    split at hs
    · cases Option.some.inj hs
      exact RunInv.frame h (fun _ => rfl) (fun _ => rfl) (fun _ => rfl) (Or.inl rfl)
    · cases Option.some.inj hs
      exact RunInv.frame h (fun _ => rfl) (fun _ => rfl) (fun _ => rfl) (Or.inl rfl)
    · simp at hs
  · simp at hs

theorem runInv_ret {s s' : State} {a r : Nat} (h : RunInv s) (hs : retStep s a = some (s', r)) : RunInv s' := by
  unfold retStep at hs
  split at hs
  · next act ha =>
    split at hs
    · next hpc =>
      obtain ⟨rfl, _⟩ := Prod.mk.inj (Option.some.inj hs)
      have h1 : RunInv (s.setAct a { act with pc := .dead }) :=
        RunInv.frame_setAct h (fun _ => rfl) (fun _ => rfl) (fun _ => rfl) (Or.inl rfl)
      split
      · next p hp => exact runInv_setChild h1 p none
      · exact h1
    · simp at hs
  · simp at hs

/-- **RunInv holds in every reachable state.** -/
theorem runInv_reachable {s : State} (hr : Reachable s) : RunInv s := by
  induction hr with
  | init nq ng max => exact runInv_init nq ng max
  | initP ps ng max => exact runInv_initP ps ng max
  | step l hprev hstep ih =>
    have hh := holderInv_reachable hprev
    obtain ⟨hw, hf⟩ := fullInv_reachable hprev
    cases l with
    | act a =>
      simp only [next, Option.map_eq_some_iff] at hstep
      obtain ⟨⟨s1, o⟩, hs, rfl⟩ := hstep
      exact runInv_stepAct hh hw hf ih hs
    | invoke t parent c =>
      simp only [next] at hstep
      split at hstep
      · simp only [Option.map_eq_some_iff] at hstep
        obtain ⟨⟨s1, a⟩, hs, rfl⟩ := hstep
        exact runInv_invoke ih hs
      · simp at hstep
    | bodyEnd a =>
      simp only [next, Option.map_eq_some_iff] at hstep
      obtain ⟨⟨s1, o⟩, hs, rfl⟩ := hstep
      exact runInv_bodyEnd ih hs
    | ret a =>
      simp only [next, Option.map_eq_some_iff] at hstep
      obtain ⟨⟨s1, r⟩, hs, rfl⟩ := hstep
      exact runInv_ret ih hs
    | spuriousUnpark a =>
      simp only [next, Option.map_eq_some_iff] at hstep
      obtain ⟨⟨s1, o⟩, hs, rfl⟩ := hstep
      exact runInv_spuriousUnpark ih hs
    | spuriousPoll a =>
      simp only [next] at hstep
      exact runInv_spuriousPoll ih hstep

/-- **The closure of an operation is invoked at most once**: an activity that stands at the step which invokes the closure of
job `j` (`jobStart`; for an `after` operation the closure is invoked from `jobAwait`, once the awaited future is ready) finds
`begun = false`, in every reachable state — whoever runs the job, and whatever happened to its queue in between. -/
theorem closure_invoked_at_most_once {s : State} (hr : Reachable s) {a j : Nat} {c : Ctx} {k : Pc} {jb : Job}
    (hpc : s.pcAt a = .jobStart j c k ∨ s.pcAt a = .jobAwait j c k) (hj : s.jobs[j]? = some jb) (hk : jb.kind.hasBody = true) :
    jb.begun = false := by
  have h := runInv_reachable hr
  cases hx : jb.begun with
  | false => rfl
  | true =>
    have hran : s.jobRan j = true := by rw [jobRan_of hj]; simp [Job.ran, hx, hk]
    rcases hpc with hpc | hpc
    all_goals (
      have := h.holders a j c.q (by rw [hpc]; rfl) hran
      rw [hpc] at this
      simp [Pc.inBody] at this)

/-- a closure job whose closure has been invoked is in no queue: it can never be started again -/
theorem ran_job_not_queued {s : State} (hr : Reachable s) {q j : Nat} {v : JobQ} {jb : Job}
    (hv : s.qs[q]? = some v) (hm : j ∈ v.jobs) (hj : s.jobs[j]? = some jb) (hk : jb.kind.hasBody = true) : jb.begun = false := by
  have := (runInv_reachable hr).queued q v.jobs j (qjobs_of hv) hm
  rw [jobRan_of hj] at this
  simpa [Job.ran, hk] using this

end Desync
