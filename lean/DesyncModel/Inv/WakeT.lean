/-
I_wake, "thread inside sync" context (C06, C04), for executions in which no returned future is polled (`ReachableNT`): a sync
caller that runs a queue itself and has parked because the operation at hand is suspended (`WaitingForUnpark`) has its own
`WakeThread` waker still registered with the awaited event, or a `WakeThread` wake-up for this queue and this thread on its
way.  As in the pool context the delicate window is between the poll and the state update: a wake-up that lands there finds
the queue `Running`, makes it `AwokenWhileRunning`, and `run_one_job_now` then polls again instead of parking.
-/
import DesyncModel.Inv.WakeStep

namespace Desync
open Gen

/-- a `WakeThread(q, t)` wake-up is on its way in this activity -/
def Pc.wakesT : Pc → Nat → Nat → Bool
  | .waking ws k, q, t => ws.contains (.thread q t) || k.wakesT q t
  | .wtCs q' t' k, q, t => (q' == q && t' == t) || k.wakesT q t
  | .begin _ k, q, t | .body _ k, q, t | .unwinding k, q, t => k.wakesT q t
  | .stReap k, q, t | .stScanLock k, q, t | .stScan _ k, q, t | .stScanHeld _ k, q, t | .stScanRel _ _ k, q, t
  | .stScanUnlock _ k, q, t | .stReadMax k, q, t | .stSpawn _ k, q, t | .stSpawnRel k, q, t => k.wakesT q t
  | .rqCs _ k, q, t | .rqNotifyAcq _ _ _ k, q, t | .rqNotify _ _ _ k, q, t | .rqNotifyRel _ _ _ k, q, t | .rqPush _ k, q, t => k.wakesT q t
  | .resumeSend _ k, q, t | .openSend _ k, q, t | .wqCs _ k, q, t | .wtUnpark _ k, q, t | .lwCs _ k, q, t | .dwCs _ k, q, t => k.wakesT q t
  | .rjDequeue _ k, q, t | .rjPending _ _ k, q, t | .rjParkCheck _ _ k, q, t | .rjPark _ _ k, q, t | .rjParked _ _ k, q, t => k.wakesT q t
  | .jobStart _ c k, q, t | .jobAwait _ c k, q, t | .jobBodyDone _ c k, q, t | .jobEnd _ c k, q, t | .jobSignal _ c k, q, t
  | .jobSigDrop _ c k, q, t | .jobDrop _ c k, q, t | .jobDropNotify _ c k, q, t | .suspSignal _ c k, q, t | .suspSigDrop _ c k, q, t =>
      (match c with | .caller _ => k.wakesT q t | _ => false)
  | .pfPollRel _ next, q, t => next.wakesT q t
  | .dqWakeWith _ _ _ k, q, t => k.wakesT q t
  | .fdDrop _ k, q, t => k.wakesT q t
  | _, _, _ => false

/-- the sync caller has polled job `j` of queue `q` (which registered its thread's waker) and is about to update the state -/
def Pc.polledT : Pc → Option (Nat × Nat)
  | .rjPending q j _ => some (q, j)
  | .begin _ k | .body _ k => k.polledT
  | .stReap k | .stScanLock k | .stScan _ k | .stScanHeld _ k | .stScanRel _ _ k
  | .stScanUnlock _ k | .stReadMax k | .stSpawn _ k | .stSpawnRel k => k.polledT
  | .rqCs _ k | .rqNotifyAcq _ _ _ k | .rqNotify _ _ _ k | .rqNotifyRel _ _ _ k | .rqPush _ k => k.polledT
  | .resumeSend _ k | .waking _ k | .openSend _ k | .wqCs _ k | .wtCs _ _ k | .wtUnpark _ k | .lwCs _ k | .dwCs _ k => k.polledT
  | .rjDequeue _ k | .rjParkCheck _ _ k | .rjPark _ _ k | .rjParked _ _ k => k.polledT
  | .jobStart _ c k | .jobAwait _ c k | .jobBodyDone _ c k | .jobEnd _ c k | .jobSignal _ c k
  | .jobSigDrop _ c k | .jobDrop _ c k | .jobDropNotify _ c k | .suspSignal _ c k | .suspSigDrop _ c k =>
      (match c with | .caller _ => k.polledT | _ => none)
  | .pfPollRel _ next => next.polledT
  | .dqWakeWith _ _ _ k => k.polledT
  | .fdDrop _ k => k.polledT
  | _ => none

/-- the sync caller is in the park loop for job `j` of queue `q` -/
def Pc.parkedJ : Pc → Option (Nat × Nat)
  | .rjParkCheck q j _ | .rjPark q j _ | .rjParked q j _ => some (q, j)
  | .begin _ k | .body _ k => k.parkedJ
  | .stReap k | .stScanLock k | .stScan _ k | .stScanHeld _ k | .stScanRel _ _ k
  | .stScanUnlock _ k | .stReadMax k | .stSpawn _ k | .stSpawnRel k => k.parkedJ
  | .rqCs _ k | .rqNotifyAcq _ _ _ k | .rqNotify _ _ _ k | .rqNotifyRel _ _ _ k | .rqPush _ k => k.parkedJ
  | .resumeSend _ k | .waking _ k | .openSend _ k | .wqCs _ k | .wtCs _ _ k | .wtUnpark _ k | .lwCs _ k | .dwCs _ k => k.parkedJ
  | .rjDequeue _ k | .rjPending _ _ k => k.parkedJ
  | .jobStart _ c k | .jobAwait _ c k | .jobBodyDone _ c k | .jobEnd _ c k | .jobSignal _ c k
  | .jobSigDrop _ c k | .jobDrop _ c k | .jobDropNotify _ c k | .suspSignal _ c k | .suspSigDrop _ c k =>
      (match c with | .caller _ => k.parkedJ | _ => none)
  | .pfPollRel _ next => next.parkedJ
  | .dqWakeWith _ _ _ k => k.parkedJ
  | .fdDrop _ k => k.parkedJ
  | _ => none

@[simp] theorem wakesT_ctxReady (k : Pc) (c : Ctx) (q t : Nat) : (ctxReady k c).wakesT q t = (match c with | .caller _ => k.wakesT q t | _ => false) := by
  cases c <;> simp [ctxReady, Pc.wakesT]
@[simp] theorem wakesT_ctxPending (j : Nat) (k : Pc) (c : Ctx) (q t : Nat) : (ctxPending j k c).wakesT q t = (match c with | .caller _ => k.wakesT q t | _ => false) := by
  cases c <;> simp [ctxPending, Pc.wakesT]
@[simp] theorem polledT_ctxReady (k : Pc) (c : Ctx) : (ctxReady k c).polledT = (match c with | .caller _ => k.polledT | _ => none) := by
  cases c <;> simp [ctxReady, Pc.polledT]
@[simp] theorem polledT_ctxPending (j : Nat) (k : Pc) (c : Ctx) :
    (ctxPending j k c).polledT = (match c with | .caller q => some (q, j) | _ => none) := by
  cases c <;> simp [ctxPending, Pc.polledT]
@[simp] theorem parkedJ_ctxReady (k : Pc) (c : Ctx) : (ctxReady k c).parkedJ = (match c with | .caller _ => k.parkedJ | _ => none) := by
  cases c <;> simp [ctxReady, Pc.parkedJ]
@[simp] theorem parkedJ_ctxPending (j : Nat) (k : Pc) (c : Ctx) : (ctxPending j k c).parkedJ = (match c with | .caller _ => k.parkedJ | _ => none) := by
  cases c <;> simp [ctxPending, Pc.parkedJ]

theorem plainFor_factsT {k : Pc} {q : Nat} (h : k.plainFor q = true) : k.polledT = none ∧ k.parkedJ = none := by
  cases k <;> simp_all [Pc.plainFor, Pc.polledT, Pc.parkedJ]

/-- the caller that has polled job `j` of `q` owns `q` and has `j` in hand -/
theorem polledT_facts (pc : Pc) (q j : Nat) (hc : pc.callerOk = true) (h : pc.polledT = some (q, j)) :
    pc.holds q = true ∧ pc.runningQ = some (j, q) ∧ pc.parks q = false := by
  fun_induction Pc.polledT pc <;> simp_all [Pc.holds, Pc.runningQ, Pc.callerOk, Pc.parks]
  all_goals (first
    | (have h1 := plainFor_facts (by assumption); have h2 := plainFor_factsT (by assumption); simp_all)
    | (cases ‹Ctx› <;> simp_all <;> (have h1 := plainFor_facts (by assumption); have h2 := plainFor_factsT (by assumption); simp_all)))

theorem parkedJ_facts (pc : Pc) (q j : Nat) (hc : pc.callerOk = true) (h : pc.parkedJ = some (q, j)) :
    pc.holds q = true ∧ pc.runningQ = some (j, q) := by
  fun_induction Pc.parkedJ pc <;> simp_all [Pc.holds, Pc.runningQ, Pc.callerOk]
  all_goals (first
    | (have h1 := plainFor_facts (by assumption); have h2 := plainFor_factsT (by assumption); simp_all)
    | (cases ‹Ctx› <;> simp_all <;> (have h1 := plainFor_facts (by assumption); have h2 := plainFor_factsT (by assumption); simp_all)))

/-- the thread waker of `(q, t)` is registered for job `j` -/
def RegT (s : State) (q j t : Nat) : Prop := s.regW j = some (.thread q t)

/-- a `WakeThread(q, t)` wake-up is on its way -/
def FlightT (s : State) (q t : Nat) : Prop := ∃ a, (s.pcAt a).wakesT q t = true

structure WakeTInv (s : State) : Prop where
  parked : ∀ a q j, (s.pcAt a).parkedJ = some (q, j) → s.qSt q = some .waitingForUnpark →
    RegT s q j (s.threadOf a) ∨ FlightT s q (s.threadOf a)
  polled : ∀ a q j, (s.pcAt a).polledT = some (q, j) →
    RegT s q j (s.threadOf a) ∨ FlightT s q (s.threadOf a) ∨ s.qSt q = some .awokenWhileRunning

/-- what a step of activity `a` does to the state of queue `q`, as far as the thread context cares -/
inductive QRelT (s X : State) (a q : Nat) : Prop
  | same (h1 : X.qSt q = s.qSt q)
  /-- a decision table that neither parks the caller nor forgets a remembered wake-up -/
  | tab (st st' : QState) (h1 : s.qSt q = some st) (h2 : X.qSt q = some st') (h3 : st' = .waitingForUnpark → st = .waitingForUnpark)
      (h4 : st = .awokenWhileRunning → st' = .awokenWhileRunning)
  | hold (h : (s.pcAt a).holds q = true)

/-- the step executed `WakeThread::wake` on `q` -/
def LandedT (s X : State) (q : Nat) : Prop := ∃ st, s.qSt q = some st ∧ X.qSt q = some (wakeThread st)

theorem wakeThread_not_wfu (st : QState) : wakeThread st ≠ .waitingForUnpark := by cases st <;> simp [wakeThread]
theorem wakeThread_awoken {st : QState} (h : st = .running ∨ st = .awokenWhileRunning) : wakeThread st = .awokenWhileRunning := by
  rcases h with rfl | rfl <;> rfl

theorem pcAt_lt {s : State} {b : Nat} (h : s.pcAt b ≠ .dead) : b < s.acts.length := by
  by_cases hb : b < s.acts.length
  · exact hb
  · have : s.acts[b]? = none := List.getElem?_eq_none (by omega)
    simp [State.pcAt, this] at h

/-- the caller that has polled is not in the park loop, so its queue is `Running` or `AwokenWhileRunning` -/
theorem pollerT_running {s : State} (hh : HolderInv s) (hw : WfInv s) (hp : ParkInv s) {b q j : Nat}
    (hb : (s.pcAt b).polledT = some (q, j)) {st : QState} (hst : s.qSt q = some st) :
    st = .running ∨ st = .awokenWhileRunning := by
  have hf := polledT_facts _ q j (hw b) hb
  refine held_running hh hw hp hf.1 ?_ hst
  intro c hc hcb
  subst hcb
  rw [hf.2.2] at hc; cases hc

/-- The general step for the thread context; same shape as `WakeInv.step`. -/
theorem WakeTInv.step {s X : State} {a : Nat} (h : WakeTInv s) (hh : HolderInv s) (hw : WfInv s) (hf : FullInv s) (hp : ParkInv s)
    (hthr : ∀ b, b < s.acts.length → X.threadOf b = s.threadOf b)
    (hothW : ∀ b, b ≠ a → ∀ q t, (s.pcAt b).wakesT q t = true → (X.pcAt b).wakesT q t = true ∨ LandedT s X q)
    (hothP : ∀ b, b ≠ a → ∀ q j, (X.pcAt b).parkedJ = some (q, j) → (s.pcAt b).parkedJ = some (q, j))
    (hothL : ∀ b, b ≠ a → ∀ q j, (X.pcAt b).polledT = some (q, j) → (s.pcAt b).polledT = some (q, j))
    (hfl : ∀ q t, (s.pcAt a).wakesT q t = true → (X.pcAt a).wakesT q t = true ∨ LandedT s X q)
    (hreg : ∀ q j t, RegT s q j t → RegT X q j t ∨ FlightT X q t ∨ ∃ q', (s.pcAt a).runningQ = some (j, q'))
    (hq : ∀ q, QRelT s X a q)
    (hnewP : ∀ q j, (X.pcAt a).parkedJ = some (q, j) → X.qSt q = some .waitingForUnpark →
      RegT X q j (X.threadOf a) ∨ FlightT X q (X.threadOf a))
    (hnewL : ∀ q j, (X.pcAt a).polledT = some (q, j) →
      RegT X q j (X.threadOf a) ∨ FlightT X q (X.threadOf a) ∨ X.qSt q = some .awokenWhileRunning) : WakeTInv X := by
  have tfl : ∀ q t, FlightT s q t → FlightT X q t ∨ LandedT s X q := by
    intro q t ⟨c, hc⟩
    by_cases hca : c = a
    · subst hca
      rcases hfl q t hc with h1 | h1
      · exact Or.inl ⟨c, h1⟩
      · exact Or.inr h1
    · rcases hothW c hca q t hc with h1 | h1
      · exact Or.inl ⟨c, h1⟩
      · exact Or.inr h1
  -- a registration for a job another activity has in hand stays or fires
  have treg : ∀ b q j t, b ≠ a → (s.pcAt b).runningQ = some (j, q) → RegT s q j t → RegT X q j t ∨ FlightT X q t := by
    intro b q j t hba hb2 hr
    rcases hreg q j t hr with h6 | h6 | ⟨q', h6⟩
    · exact Or.inl h6
    · exact Or.inr h6
    · exfalso
      have e1 := hf.run1 a j q' h6
      have e2 := hf.run1 b j q hb2
      rw [e1] at e2
      simp only [Option.some.injEq, Prod.mk.injEq, Phase.held.injEq] at e2
      exact hba e2.1.symm
  refine ⟨?_, ?_⟩
  · -- parked
    intro b q j hb hst
    by_cases hba : b = a
    · subst hba; exact hnewP q j hb hst
    · replace hb := hothP b hba q j hb
      have hbf := parkedJ_facts _ q j (hw b) hb
      have hlt : b < s.acts.length := pcAt_lt (by intro e; rw [e] at hb; simp [Pc.parkedJ] at hb)
      rw [hthr b hlt]
      have hst0 : s.qSt q = some .waitingForUnpark := by
        rcases hq q with h1 | ⟨st, st', h1, h2, h3, h4⟩ | hhold
        · rw [← h1]; exact hst
        · rw [h2] at hst
          rw [h1, h3 (Option.some.inj hst)]
        · exact absurd (holders_eq hh hhold hbf.1) (fun e => hba e.symm)
      rcases h.parked b q j hb hst0 with hc | hc
      · exact treg b q j _ hba hbf.2 hc
      · rcases tfl q _ hc with h6 | ⟨st0, h6, h7⟩
        · exact Or.inr h6
        · rw [hst] at h7
          exact absurd (Option.some.inj h7).symm (wakeThread_not_wfu st0)
  · -- polled
    intro b q j hb
    by_cases hba : b = a
    · subst hba; exact hnewL q j hb
    · replace hb := hothL b hba q j hb
      have hbf := polledT_facts _ q j (hw b) hb
      have hlt : b < s.acts.length := pcAt_lt (by intro e; rw [e] at hb; simp [Pc.polledT] at hb)
      rw [hthr b hlt]
      rcases h.polled b q j hb with hc | hc | hc
      · rcases treg b q j _ hba hbf.2.1 hc with h6 | h6
        · exact Or.inl h6
        · exact Or.inr (Or.inl h6)
      · rcases tfl q _ hc with h6 | ⟨st0, h6, h7⟩
        · exact Or.inr (Or.inl h6)
        · right; right
          rw [h7, wakeThread_awoken (pollerT_running hh hw hp hb h6)]
      · right; right
        rcases hq q with h1 | ⟨st, st', h1, h2, h3, h4⟩ | hhold
        · rw [h1]; exact hc
        · rw [h1] at hc
          rw [h2, h4 (Option.some.inj hc)]
        · exact absurd (holders_eq hh hhold hbf.1) (fun e => hba e.symm)

/-- a step after which every activity is, for the thread context, where it was (or nowhere), no registration changed, and each
queue is unchanged or was rewritten by a soft table -/
theorem WakeTInv.soft {s X : State} (h : WakeTInv s) (hh : HolderInv s) (hw : WfInv s) (hf : FullInv s) (hp : ParkInv s)
    (hthr : ∀ b, b < s.acts.length → X.threadOf b = s.threadOf b)
    (hW : ∀ b q t, (s.pcAt b).wakesT q t = true → (X.pcAt b).wakesT q t = true ∨ LandedT s X q)
    (hP : ∀ b q j, (X.pcAt b).parkedJ = some (q, j) → (s.pcAt b).parkedJ = some (q, j))
    (hL : ∀ b q j, (X.pcAt b).polledT = some (q, j) → (s.pcAt b).polledT = some (q, j))
    (hreg : ∀ q j t, RegT s q j t → RegT X q j t ∨ FlightT X q t)
    (hq : ∀ q, X.qSt q = s.qSt q ∨
      ∃ st st', s.qSt q = some st ∧ X.qSt q = some st' ∧ (st' = .waitingForUnpark → st = .waitingForUnpark) ∧
        (st = .awokenWhileRunning → st' = .awokenWhileRunning)) :
    WakeTInv X := by
  have hdead : ∀ Y : State, Y.acts.length ≤ s.acts.length + X.acts.length → Y.pcAt (s.acts.length + X.acts.length) = .dead := by
    intro Y hY
    have : Y.acts[s.acts.length + X.acts.length]? = none := List.getElem?_eq_none hY
    simp [State.pcAt, this]
  have hs := hdead s (by omega)
  have hX := hdead X (by omega)
  refine WakeTInv.step (a := s.acts.length + X.acts.length) h hh hw hf hp hthr (fun b _ => hW b) (fun b _ => hP b) (fun b _ => hL b) ?_ ?_ ?_ ?_ ?_
  · intro q t hq'; rw [hs] at hq'; simp [Pc.wakesT] at hq'
  · intro q j t hr
    rcases hreg q j t hr with h1 | h1
    · exact Or.inl h1
    · exact Or.inr (Or.inl h1)
  · intro q
    rcases hq q with h1 | ⟨st, st', h1, h2, h3, h4⟩
    · exact QRelT.same h1
    · exact QRelT.tab st st' h1 h2 h3 h4
  · intro q j hq'; rw [hX] at hq'; simp [Pc.parkedJ] at hq'
  · intro q j hq'; rw [hX] at hq'; simp [Pc.polledT] at hq'

end Desync
