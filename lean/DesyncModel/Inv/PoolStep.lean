/-
I_pool is preserved by every internal step.
-/
import DesyncModel.Inv.Pool
import DesyncModel.Tables.Pool

namespace Desync
open Gen

set_option hygiene false in
macro "pool_side" : tactic => `(tactic| first
      | (intro b; simp only [pcAt_setQ, pcAt_setJob, pcAt_setHolder, pcAt_setWoken, pcAt_notify, pcAt_setPThr, pcAt_setFut, pcAt_setGate,
                             pcAt_takeReady, pcAt_dropReady, pcAt_setJobPh, pcAt_pushFront, pcAt_pushBack, pcAt_setQState, pcAt_dequeue]; exact h.pcs b)
      | (intro b; exact h.pcs b)
      | (intro b; simp only [State.pcAt, dequeue_acts]; exact h.pcs b)
      | (simp only [dequeue_threadsVec]; exact h.vec)
      | (simp only [dequeue_maxThreads]; exact h.max)
      | (simp only [threadsVec_setQ, threadsVec_setJob, threadsVec_setFut, threadsVec_setGate, threadsVec_setSf, threadsVec_setPThr, threadsVec_setHolder,
                    threadsVec_takeReady, threadsVec_dropReady, threadsVec_setWoken, threadsVec_notify, threadsVec_setQState, threadsVec_pushBack,
                    threadsVec_pushFront, threadsVec_setJobPh]; exact h.vec)
      | (simp only [maxThreads_setQ, maxThreads_setJob, maxThreads_setFut, maxThreads_setGate, maxThreads_setSf, maxThreads_setPThr, maxThreads_setHolder,
                    maxThreads_takeReady, maxThreads_dropReady, maxThreads_setWoken, maxThreads_notify, maxThreads_setQState, maxThreads_pushBack,
                    maxThreads_pushFront, maxThreads_setJobPh]; exact h.max)
      | exact h.vec
      | exact h.max
      | ((try simp only [Pc.spawnOk, spawnOk_ctxReady, spawnOk_ctxPending, Bool.and_eq_true, decide_eq_true_eq, Bool.true_or] at hk);
         first
         | (simp only [Pc.spawnOk, spawnOk_ctxReady, spawnOk_ctxPending, Bool.and_eq_true, decide_eq_true_eq, Bool.true_or]; done)
         | ((try simp only [Pc.spawnOk, spawnOk_ctxReady, spawnOk_ctxPending, Bool.and_eq_true, decide_eq_true_eq, Bool.true_or]);
            first | exact hk | exact hk.2 | exact hk.1 | trivial | exact ⟨hk.1, hk.2⟩ | (split <;> first | trivial | exact hk | (simp_all; done)))))

theorem p_stReap {M : Nat} {s s' : State} {a : Nat} {o : Obs} (h : PoolInv M s) (act : Act) (ha : s.acts[a]? = some act) (hc : act.child = none) (k : Pc)
    (hpc : act.pc = .stReap k) (hs : stepAct s a = some (s', o)) : PoolInv M s' := by
  have hk := h.pcs a
  rw [pcAt_of ha, hpc] at hk
  unfold stepAct at hs
  simp only [ha, hc, hpc, Option.isSome_none, Bool.false_eq_true, ↓reduceIte] at hs
  split at hs
  · simp at hs
  · simp only [Option.some.injEq, Prod.mk.injEq] at hs; obtain ⟨rfl, _⟩ := hs
    refine PoolInv.keep_goto h (fun b => h.pcs b) ?_ h.max (by simpa [Pc.spawnOk] using hk)
    exact Nat.le_trans (List.length_filter_le _ _) h.vec

theorem p_stReadMax {M : Nat} {s s' : State} {a : Nat} {o : Obs} (h : PoolInv M s) (act : Act) (ha : s.acts[a]? = some act) (hc : act.child = none) (k : Pc)
    (hpc : act.pc = .stReadMax k) (hs : stepAct s a = some (s', o)) : PoolInv M s' := by
  have hk := h.pcs a
  rw [pcAt_of ha, hpc] at hk
  unfold stepAct at hs
  simp only [ha, hc, hpc, Option.isSome_none, Bool.false_eq_true, ↓reduceIte] at hs
  simp only [Option.some.injEq, Prod.mk.injEq] at hs; obtain ⟨rfl, _⟩ := hs
  refine PoolInv.keep_goto h (fun b => h.pcs b) h.vec h.max ?_
  simp only [Pc.spawnOk, Bool.and_eq_true, decide_eq_true_eq] at hk ⊢
  exact ⟨h.max, hk⟩

theorem p_stSpawn {M : Nat} {s s' : State} {a : Nat} {o : Obs} (h : PoolInv M s) (act : Act) (ha : s.acts[a]? = some act) (hc : act.child = none) (m : Nat) (k : Pc)
    (hpc : act.pc = .stSpawn m k) (hs : stepAct s a = some (s', o)) : PoolInv M s' := by
  have hk := h.pcs a
  rw [pcAt_of ha, hpc] at hk
  simp only [Pc.spawnOk, Bool.and_eq_true, decide_eq_true_eq] at hk
  have hlt : a < s.acts.length := lt_of_getElem?_some ha
  unfold stepAct at hs
  simp only [ha, hc, hpc, Option.isSome_none, Bool.false_eq_true, ↓reduceIte] at hs
  split at hs
  · simp at hs
  · split at hs
    · next hsp =>
      simp only [Option.some.injEq, Prod.mk.injEq] at hs; obtain ⟨rfl, _⟩ := hs
      have hlen : s.threadsVec.length < m := (spawn_only_below_max _ _).mp hsp
      refine PoolInv.keep_goto h ?_ ?_ h.max (by simpa [Pc.spawnOk] using hk.2)
      · exact spawnOk_pcAt_append h rfl (by simp [Pc.spawnOk])
      · simp; omega
    · simp only [Option.some.injEq, Prod.mk.injEq] at hs; obtain ⟨rfl, _⟩ := hs
      exact PoolInv.keep_goto h (fun b => h.pcs b) h.vec h.max (by simpa [Pc.spawnOk] using hk.2)

theorem p_smSet {M : Nat} {s s' : State} {a : Nat} {o : Obs} (h : PoolInv M s) (act : Act) (ha : s.acts[a]? = some act) (hc : act.child = none) (n : Nat)
    (hpc : act.pc = .smSet n) (hs : stepAct s a = some (s', o)) : PoolInv M s' := by
  have hk := h.pcs a
  rw [pcAt_of ha, hpc] at hk
  simp only [Pc.spawnOk, decide_eq_true_eq] at hk
  unfold stepAct at hs
  simp only [ha, hc, hpc, Option.isSome_none, Bool.false_eq_true, ↓reduceIte] at hs
  simp only [Option.some.injEq, Prod.mk.injEq] at hs; obtain ⟨rfl, _⟩ := hs
  exact PoolInv.keep_goto h (fun b => h.pcs b) h.vec hk (by simp [Pc.spawnOk])

theorem p_sbPrune {M : Nat} {s s' : State} {a : Nat} {o : Obs} (h : PoolInv M s) (act : Act) (ha : s.acts[a]? = some act) (hc : act.child = none) (q : Nat)
    (hpc : act.pc = .sbPrune q) (hs : stepAct s a = some (s', o)) : PoolInv M s' := by
  unfold stepAct at hs
  simp only [ha, hc, hpc, Option.isSome_none, Bool.false_eq_true, ↓reduceIte] at hs
  split at hs
  · simp at hs
  · simp only [Option.some.injEq, Prod.mk.injEq] at hs; obtain ⟨rfl, _⟩ := hs
    have h1 : PoolInv M (s.goto a Pc.ret) := PoolInv.keep_goto h (fun b => h.pcs b) h.vec h.max (by simp [Pc.spawnOk])
    exact PoolInv.of_eq h1 rfl rfl (fun b => rfl)

theorem p_dpLock {M : Nat} {s s' : State} {a : Nat} {o : Obs} (h : PoolInv M s) (act : Act) (ha : s.acts[a]? = some act) (hc : act.child = none) (m : Nat)
    (hpc : act.pc = .dpLock m) (hs : stepAct s a = some (s', o)) : PoolInv M s' := by
  unfold stepAct at hs
  simp only [ha, hc, hpc, Option.isSome_none, Bool.false_eq_true, ↓reduceIte] at hs
  repeat' split at hs
  all_goals (try (simp at hs; done))
  all_goals (simp only [Option.some.injEq, Prod.mk.injEq] at hs; obtain ⟨rfl, _⟩ := hs)
  all_goals (refine PoolInv.keep_goto h (fun b => h.pcs b) ?_ h.max (by simp [Pc.spawnOk]))
  all_goals (first | exact h.vec | (have := h.vec; simp; omega))

theorem p_dpHang {M : Nat} {s s' : State} {a : Nat} {o : Obs} (h : PoolInv M s) (act : Act) (ha : s.acts[a]? = some act) (hc : act.child = none) (m : Nat) (gone : List Nat)
    (hpc : act.pc = .dpHang m gone) (hs : stepAct s a = some (s', o)) : PoolInv M s' := by
  unfold stepAct at hs
  simp only [ha, hc, hpc, Option.isSome_none, Bool.false_eq_true, ↓reduceIte] at hs
  repeat' split at hs
  all_goals (try (simp at hs; done))
  all_goals (simp only [Option.some.injEq, Prod.mk.injEq] at hs; obtain ⟨rfl, _⟩ := hs)
  all_goals (refine PoolInv.keep_goto h (fun b => h.pcs b) ?_ h.max (by simp [Pc.spawnOk]))
  all_goals (first | exact h.vec | (have := h.vec; simp; omega))

set_option maxHeartbeats 4000000 in
set_option maxRecDepth 8000 in
theorem poolInv_stepAct {M : Nat} {s s' : State} {a : Nat} {o : Obs} (h : PoolInv M s)
    (hs : stepAct s a = some (s', o)) : PoolInv M s' := by
  have hs0 := hs
  unfold stepAct at hs
  split at hs
  · simp at hs
  next act ha =>
  split at hs
  · simp at hs
  next hchild =>
  have hlt : a < s.acts.length := lt_of_getElem?_some ha
  have hpca := pcAt_of ha
  have hk := h.pcs a
  rw [hpca] at hk
  have hc : act.child = none := by
    cases hcc : act.child <;> simp_all
  split at hs
  all_goals (try (simp at hs; done))
  all_goals (try (first
      | exact p_stReap h act ha hc _ (by assumption) hs0
      | exact p_stReadMax h act ha hc _ (by assumption) hs0
      | exact p_stSpawn h act ha hc _ _ (by assumption) hs0
      | exact p_smSet h act ha hc _ (by assumption) hs0
      | exact p_sbPrune h act ha hc _ (by assumption) hs0
      | exact p_dpLock h act ha hc _ (by assumption) hs0
      | exact p_dpHang h act ha hc _ _ (by assumption) hs0))
  all_goals (try dsimp only at hs)
  all_goals (repeat' split at hs)
  all_goals (try (simp at hs; done))
  all_goals (try (simp only [Option.some.injEq, Prod.mk.injEq] at hs; obtain ⟨rfl, _⟩ := hs))
  all_goals (try (rw [‹act.pc = _›] at hk))
  all_goals (first
      | ((refine PoolInv.keep_goto h ?_ ?_ ?_ ?_) <;> pool_side)
      | ((refine PoolInv.keep_setAct h ?_ ?_ ?_ ?_) <;> pool_side)
      | skip)

end Desync
