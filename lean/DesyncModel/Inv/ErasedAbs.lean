/-
The lifetime-erased jobs of `sync` (C14), over abstract projections.

`K j`  = owner (the activity of the `sync` call) and kind (`true` = sync_background) of job `j` if it is lifetime-erased;
`D j`  = job `j` is done (its box has been dropped);
`A a`  = the erased job the call `a` is waiting for (its program counter is inside the wait loop of sync_drain / sync_background);
`F a`  = the call `a` has not created its erased job yet;   `Rd a` = the `ready` flag of call `a` is set;   `NA` = number of activities.
-/
import DesyncModel.Inv.JobProj
namespace Desync
open Gen

structure ErasedInvF (K : Nat → Option (Nat × Bool)) (D : Nat → Bool) (A : Nat → Option Nat) (F Rd : Nat → Bool) (NA : Nat) : Prop where
  /-- an erased job that is not done is being waited for by its owner, inside the call that created it -/
  waits : ∀ j o bg, K j = some (o, bg) → D j = false → A o = some j
  /-- the ready flag of a sync_background call is set only when its erased job is done -/
  readyDone : ∀ j o, K j = some (o, true) → Rd o = true → D j = true
  readyNotFresh : ∀ a, Rd a = true → F a = false
  ownerNotFresh : ∀ j o bg, K j = some (o, bg) → F o = false
  ownerExists : ∀ j o bg, K j = some (o, bg) → o < NA
  readyExists : ∀ a, Rd a = true → a < NA
  /-- a call creates at most one erased job -/
  unique : ∀ j1 j2 o b1 b2, K j1 = some (o, b1) → K j2 = some (o, b2) → j1 = j2
  readyHasJob : ∀ a, Rd a = true → ∃ j, K j = some (a, true)

/-- activity `a` moves; what it waits for and whether it is fresh do not change (or it stops being fresh) -/
theorem ErasedInvF.frame {K D D' A A' F F' Rd NA} {a : Nat} (h : ErasedInvF K D A F Rd NA)
    (hD : ∀ j, D j = true → D' j = true)
    (hA : ∀ b, A' b = A b) (hF : ∀ b, F' b = true → F b = true) : ErasedInvF K D' A' F' Rd NA := by
  refine ⟨?_, ?_, ?_, ?_, h.ownerExists, h.readyExists, h.unique, h.readyHasJob⟩
  · intro j o bg hk hd
    rw [hA]
    apply h.waits j o bg hk
    cases hx : D j with
    | false => rfl
    | true => rw [hD j hx] at hd; cases hd
  · intro j o hk hr; exact hD j (h.readyDone j o hk hr)
  · intro b hr
    cases hx : F' b with
    | false => rfl
    | true => have := h.readyNotFresh b hr; rw [hF b hx] at this; cases this
  · intro j o bg hk
    cases hx : F' o with
    | false => rfl
    | true => have := h.ownerNotFresh j o bg hk; rw [hF o hx] at this; cases this

/-- the call `a`, still fresh, creates its erased job `n` -/
theorem ErasedInvF.push {K K' D D' A A' F F' Rd NA} {a n : Nat} {bg : Bool} (h : ErasedInvF K D A F Rd NA)
    (hfresh : F a = true) (hlt : a < NA) (hKn : K n = none)
    (hK : ∀ j, K' j = if j = n then some (a, bg) else K j)
    (hD : ∀ j, D' j = if j = n then false else D j)
    (hA : ∀ b, A' b = if b = a then some n else A b)
    (hF : ∀ b, F' b = if b = a then false else F b) : ErasedInvF K' D' A' F' Rd NA := by
  have hra : Rd a = false := by
    cases hx : Rd a with
    | false => rfl
    | true => have := h.readyNotFresh a hx; rw [hfresh] at this; cases this
  have hown : ∀ j bg', K j ≠ some (a, bg') := by
    intro j bg' hk; have := h.ownerNotFresh j a bg' hk; rw [hfresh] at this; cases this
  refine ⟨?_, ?_, ?_, ?_, ?_, ?_, ?_, ?_⟩
  · intro j o bg' hk hd
    rw [hK] at hk; rw [hD] at hd; rw [hA]
    split at hk
    · next e => simp at hk; rw [← hk.1]; simp [e]
    · next hne =>
      simp only [hne, ↓reduceIte] at hd
      have hoa : o ≠ a := by intro e; rw [e] at hk; exact hown j bg' hk
      simp only [hoa, ↓reduceIte]
      exact h.waits j o bg' hk hd
  · intro j o hk hr
    rw [hK] at hk; rw [hD]
    split at hk
    · simp at hk; rw [← hk.1, hra] at hr; cases hr
    · next hne => simp only [hne, ↓reduceIte]; exact h.readyDone j o hk hr
  · intro b hr
    rw [hF]
    split
    · rfl
    · exact h.readyNotFresh b hr
  · intro j o bg' hk
    rw [hK] at hk; rw [hF]
    split at hk
    · simp at hk; simp [hk.1]
    · split
      · rfl
      · exact h.ownerNotFresh j o bg' hk
  · intro j o bg' hk
    rw [hK] at hk
    split at hk
    · simp at hk; rw [← hk.1]; exact hlt
    · exact h.ownerExists j o bg' hk
  · exact h.readyExists
  · intro j1 j2 o b1 b2 h1 h2
    rw [hK] at h1 h2
    split at h1
    · next e1 =>
      split at h2
      · next e2 => rw [e1, e2]
      · simp at h1; rw [← h1.1] at h2; exact absurd h2 (hown j2 b2)
    · split at h2
      · simp at h2; rw [← h2.1] at h1; exact absurd h1 (hown j1 b1)
      · exact h.unique j1 j2 o b1 b2 h1 h2
  · intro b hr
    obtain ⟨j, hj⟩ := h.readyHasJob b hr
    refine ⟨j, ?_⟩
    rw [hK]
    split
    · next e => rw [e, hKn] at hj; cases hj
    · exact hj

/-- the box of the sync_background job `j0` of call `o0` is dropped: the job is done and the ready flag is set -/
theorem ErasedInvF.dropBg {K D D' A F Rd Rd' NA} {j0 o0 : Nat} (h : ErasedInvF K D A F Rd NA)
    (hk0 : K j0 = some (o0, true)) (hnd : D j0 = false)
    (hD : ∀ j, D' j = if j = j0 then true else D j)
    (hR : ∀ b, Rd' b = if b = o0 then true else Rd b) : ErasedInvF K D' A F Rd' NA := by
  refine ⟨?_, ?_, ?_, h.ownerNotFresh, h.ownerExists, ?_, h.unique, ?_⟩
  · intro j o bg hk hd
    rw [hD] at hd
    split at hd
    · cases hd
    · exact h.waits j o bg hk hd
  · intro j o hk hr
    rw [hD]
    split
    · rfl
    · next hne =>
      rw [hR] at hr
      split at hr
      · next e =>
        -- another sync_background job of the same call would be waited for as well
        cases hx : D j with
        | true => rfl
        | false =>
          exfalso
          rw [e] at hk
          have w1 := h.waits j o0 true hk hx
          have w0 := h.waits j0 o0 true hk0 hnd
          rw [w1] at w0; simp at w0; exact hne w0
      · exact h.readyDone j o hk hr
  · intro b hr
    rw [hR] at hr
    split at hr
    · next e => rw [e]; exact h.ownerNotFresh j0 o0 true hk0
    · exact h.readyNotFresh b hr
  · intro b hr
    rw [hR] at hr
    split at hr
    · next e => rw [e]; exact h.ownerExists j0 o0 true hk0
    · exact h.readyExists b hr
  · intro b hr
    rw [hR] at hr
    split at hr
    · next e => rw [e]; exact ⟨j0, hk0⟩
    · exact h.readyHasJob b hr

/-- the call `a` leaves its wait loop: every erased job it owns is done -/
theorem ErasedInvF.exit {K D A A' F Rd NA} {a : Nat} (h : ErasedInvF K D A F Rd NA)
    (hall : ∀ j bg, K j = some (a, bg) → D j = true)
    (hA : ∀ b, b ≠ a → A' b = A b) : ErasedInvF K D A' F Rd NA := by
  refine ⟨?_, h.readyDone, h.readyNotFresh, h.ownerNotFresh, h.ownerExists, h.readyExists, h.unique, h.readyHasJob⟩
  intro j o bg hk hd
  by_cases hoa : o = a
  · rw [hoa] at hk; have := hall j bg hk; rw [hd] at this; cases this
  · rw [hA o hoa]; exact h.waits j o bg hk hd

/-- a new activity is created (a call starts, or a pool thread is spawned) -/
theorem ErasedInvF.newAct {K D A A' F F' Rd NA} (h : ErasedInvF K D A F Rd NA)
    (hA : ∀ b, b ≠ NA → A' b = A b) (hF : ∀ b, b ≠ NA → F' b = F b) : ErasedInvF K D A' F' Rd (NA + 1) := by
  refine ⟨?_, h.readyDone, ?_, ?_, ?_, ?_, h.unique, h.readyHasJob⟩
  · intro j o bg hk hd
    have := h.ownerExists j o bg hk
    rw [hA o (by omega)]; exact h.waits j o bg hk hd
  · intro b hr
    have := h.readyExists b hr
    rw [hF b (by omega)]; exact h.readyNotFresh b hr
  · intro j o bg hk
    have := h.ownerExists j o bg hk
    rw [hF o (by omega)]; exact h.ownerNotFresh j o bg hk
  · intro j o bg hk; have := h.ownerExists j o bg hk; omega
  · intro b hr; have := h.readyExists b hr; omega

end Desync
