/-
Every internal step of the scheduler model is a step of the abstract pool (`PStep`).
-/
import DesyncModel.Inv.PoolSimCases

namespace Desync
open Gen

set_option maxHeartbeats 4000000 in
set_option maxRecDepth 8000 in
theorem pstep_of_stepAct {s s' : State} {a : Nat} {o : Obs} (hw : (s.pcAt a).wf = true)
    (hs : stepAct s a = some (s', o)) : PStep s a s' := by
  have hs0 := hs
  unfold stepAct at hs
  split at hs
  · simp at hs
  next act ha =>
  split at hs
  · simp at hs
  next hchild =>
  have hlt : a < s.acts.length := lt_of_getElem?_some ha
  have hpca := pcAt_of ha
  rw [hpca] at hw
  have hc : act.child = none := by
    cases hcc : act.child <;> simp_all
  split at hs
  all_goals (try (simp at hs; done))
  all_goals (try (first
      | exact sim_stReap act ha hc _ (by assumption) hs0
      | exact sim_stScanLock act ha hc _ (by assumption) hs0
      | exact sim_stScan act ha hc _ _ (by assumption) hs0
      | exact sim_stScanHeld act ha hc _ _ (by assumption) hs0
      | exact sim_stScanRel act ha hc _ _ _ (by assumption) hs0
      | exact sim_stScanUnlock act ha hc _ _ (by assumption) hw hs0
      | exact sim_stReadMax act ha hc _ (by assumption) hs0
      | exact sim_stSpawn act ha hc _ _ (by assumption) hw hs0
      | exact sim_stSpawnRel act ha hc _ (by assumption) hs0
      | exact sim_rqPush act ha hc _ _ (by assumption) hw hs0
      | exact sim_dsSched act ha hc _ (by assumption) hs0
      | exact sim_ptRecv act ha hc _ (by assumption) hs0
      | exact sim_ptRecvd act ha hc _ (by assumption) hs0
      | exact sim_ptLockBusy act ha hc _ (by assumption) hs0
      | exact sim_ptLockSched act ha hc _ (by assumption) hs0
      | exact sim_ptPop act ha hc _ (by assumption) hs0
      | exact sim_ptUnlockSched act ha hc _ _ (by assumption) hs0
      | exact sim_ptUnlockBusy act ha hc _ _ (by assumption) hs0
      | exact sim_pdPending act ha hc _ _ (by assumption) hs0
      | exact sim_pdExit act ha hc _ _ (by assumption) hs0
      | exact sim_sbClaim act ha hc _ _ (by assumption) hs0
      | exact sim_smSet act ha hc _ (by assumption) hs0
      | exact sim_dpRead act ha hc (by assumption) hs0
      | exact sim_dpLock act ha hc _ (by assumption) hs0
      | exact sim_dpHang act ha hc _ _ (by assumption) hs0))
  all_goals (try dsimp only at hs)
  all_goals (repeat' split at hs)
  all_goals (try (simp at hs; done))
  all_goals (try (simp only [Option.some.injEq, Prod.mk.injEq] at hs; obtain ⟨rfl, _⟩ := hs))
  all_goals (first
      | (refine PStep.neutral ⟨?_, ?_⟩ ?_ ?_
         · sim_oth
         · sim_self
         · sim_self
         · sim_pool)
      | skip)

end Desync
