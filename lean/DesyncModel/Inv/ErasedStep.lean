/-
The erased-job invariant is preserved by every internal step.
-/
import DesyncModel.Inv.ErasedCases

namespace Desync
open Gen

set_option hygiene false in
macro "er_side" : tactic => `(tactic| first
      | (intro b; (try simp only [pcAt_setQ, pcAt_setJob, pcAt_setHolder, pcAt_setWoken, pcAt_notify, pcAt_setPThr, pcAt_setFut, pcAt_setGate,
                             pcAt_takeReady, pcAt_dropReady, pcAt_setJobPh, pcAt_pushFront, pcAt_pushBack, pcAt_setQState, pcAt_dequeue]); first | done | rfl)
      | (intro i; (try simp only [jobK_setQ, jobK_setFut, jobK_setGate, jobK_setAct, jobK_setSf, jobK_setPThr, jobK_setHolder, jobK_takeReady,
                             jobK_dropReady, jobK_setWoken, jobK_notify, jobK_setQState, jobK_pushBack, jobK_pushFront, jobK_setJobPh]);
           first | done | rfl | (apply jobK_setJob_keep <;> first | assumption | rfl))
      | (intro i hi; (try simp only [jobD_setQ, jobD_setFut, jobD_setGate, jobD_setAct, jobD_setSf, jobD_setPThr, jobD_setHolder, jobD_takeReady,
                             jobD_dropReady, jobD_setWoken, jobD_notify, jobD_setQState, jobD_pushBack, jobD_pushFront]);
           first | exact hi | (revert i; apply jobD_setJob_mono <;> first | assumption | (intro hk; first | exact hk | rfl)))
      | (intro b; (try simp only [isReady_setQ, isReady_setFut, isReady_setGate, isReady_setAct, isReady_setSf, isReady_setPThr, isReady_setHolder, isReady_takeReady,
                             isReady_dropReady, isReady_setWoken, isReady_notify, isReady_setQState, isReady_pushBack, isReady_pushFront, isReady_setJob, isReady_setJobPh]); first | done | rfl)
      | rfl
      | (simp; done)
      | ((rw [hpca, ‹act.pc = _›]) <;> (simp only [Pc.awaited, awaited_ctxReady, awaited_ctxPending]; done))
      | ((rw [hpca, ‹act.pc = _›]) <;> (simp only [Pc.awaited, awaited_ctxReady, awaited_ctxPending]; rename_i c _ _; cases c <;> rfl))
      | (left; (rw [hpca, ‹act.pc = _›]) <;> (simp only [Pc.fresh, fresh_ctxReady, fresh_ctxPending]; done))
      | (left; (rw [hpca, ‹act.pc = _›]) <;> (simp only [Pc.fresh, fresh_ctxReady, fresh_ctxPending]; rename_i c _ _; cases c <;> rfl))
      | (right; simp only [Pc.fresh]; done))

set_option maxHeartbeats 4000000 in
set_option maxRecDepth 8000 in
theorem erasedInv_stepAct {s s' : State} {a : Nat} {o : Obs} (hw : WfInv s) (hj : JobInv s) (h : ErasedInv s)
    (hs : stepAct s a = some (s', o)) : ErasedInv s' := by
  have hs0 := hs
  unfold stepAct at hs
  split at hs
  · simp at hs
  next act ha =>
  split at hs
  · simp at hs
  next hchild =>
  have hlt : a < s.acts.length := lt_of_getElem?_some ha
  have hpca := pcAt_of ha
  have hc : act.child = none := by
    cases hcc : act.child <;> simp_all
  split at hs
  all_goals (try (simp at hs; done))
  all_goals (try (first
      | exact e_sdCheck h act ha hc _ _ (by assumption) hs0
      | exact e_sbTest h act ha hc _ _ (by assumption) hs0
      | exact e_rjDequeue hj h act ha hc _ _ (by assumption) hs0
      | exact e_pdDequeue hj h act ha hc _ _ (by assumption) hs0
      | exact e_dqDequeue hj h act ha hc _ _ (by assumption) hs0
      | exact e_pdRequeue hj h act ha hc _ _ _ (by assumption) hs0
      | exact e_dqRequeue hj h act ha hc _ _ _ _ (by assumption) hs0
      | exact e_jobDrop hj h act ha hc _ _ _ (by assumption) hs0
      | exact e_syDecide h act ha hc _ _ (by assumption) hs0
      | exact e_tsDecide h act ha hc _ _ (by assumption) hs0
      | exact e_dsPush hw h act ha hc _ _ (by assumption) hs0
      | exact e_sdPush h act ha hc _ _ (by assumption) hs0
      | exact e_sbPush h act ha hc _ _ (by assumption) hs0
      | exact e_stSpawn h act ha hc _ _ (by assumption) hs0))
  all_goals (try dsimp only at hs)
  all_goals (repeat' split at hs)
  all_goals (try (simp at hs; done))
  all_goals (try (simp only [Option.some.injEq, Prod.mk.injEq] at hs; obtain ⟨rfl, _⟩ := hs))
  all_goals (first
      | ((refine ErasedInv.frame h ?_ ?_ ?_ ?_ ?_ ?_ ?_) <;> er_side)
      | ((refine ErasedInv.frame_setAct h ?_ ?_ ?_ ?_ ?_ ?_ ?_) <;> er_side)
      | skip)


end Desync
