/-
DrainInv holds in every reachable state; consequence: dropping the designated poller of a queue always releases the queue.
-/
import DesyncModel.Inv.DrainStep
namespace Desync
open Gen

theorem drainInv_init (nq ng max : Nat) : DrainInv (initState nq ng max) := by
  refine ⟨?_, ?_, ?_⟩
  · intro a f q hr; simp [initState, State.pcAt, Pc.taskPair] at hr
  · intro a f hb; simp [initState, State.pcAt, Pc.wfpOf] at hb
  · intro q f hq
    simp only [initState, State.qSt, List.getElem?_replicate] at hq
    split at hq <;> simp at hq

theorem drainInv_initP (ps : List Bool) (ng max : Nat) : DrainInv (initStateP ps ng max) := by
  refine ⟨?_, ?_, ?_⟩
  · intro a f q hr; simp [initStateP, initState, State.pcAt, Pc.taskPair] at hr
  · intro a f hb; simp [initStateP, initState, State.pcAt, Pc.wfpOf] at hb
  · intro q f hq; rcases qSt_initP hq with h | h <;> cases h

/-- new futures are appended: nothing changes for the existing ones -/
theorem DrainInv.append_futs {s X : State} {l : List Fut} (h : DrainInv s) (hA : X.acts = s.acts) (hQ : X.qs = s.qs) (hF : X.futs = s.futs ++ l) : DrainInv X := by
  have hq : ∀ f q, s.futQ f = some q → X.futQ f = some q := by
    intro f q hfq
    simp only [State.futQ] at hfq ⊢
    cases hx : s.futs[f]? with
    | none => simp [hx] at hfq
    | some fu =>
      have hlt : f < s.futs.length := (List.getElem?_eq_some_iff.mp hx).1
      rw [hF, List.getElem?_append_left hlt, hx]; rw [hx] at hfq; exact hfq
  have hd : ∀ f, s.futDr f = true → X.futDr f = true := by
    intro f hfd
    simp only [State.futDr] at hfd ⊢
    cases hx : s.futs[f]? with
    | none => simp [hx] at hfd
    | some fu =>
      have hlt : f < s.futs.length := (List.getElem?_eq_some_iff.mp hx).1
      rw [hF, List.getElem?_append_left hlt, hx]; rw [hx] at hfd; exact hfd
  have hpc : ∀ b, X.pcAt b = s.pcAt b := fun b => by simp only [State.pcAt, hA]
  exact ⟨fun a f q hr => hq f q (h.pl a f q (by rw [hpc] at hr; exact hr)),
         fun a f hb => hd f (h.dr a f (by rw [hpc] at hb; exact hb)),
         fun q f hw => by
           rw [qSt_congr hQ] at hw
           exact ⟨hd f (h.wq q f hw).1, hq f q (h.wq q f hw).2⟩⟩

theorem drainInv_setChild {s : State} (h : DrainInv s) (p : Nat) (c : Option Nat) :
    DrainInv (match s.acts[p]? with | some pv => s.setAct p { pv with child := c } | none => s) := by
  split
  · next pv hpv =>
    exact DrainInv.of_eq h (fun b => pcAt_setAct_samepc _ p pv { pv with child := c } hpv rfl b) rfl rfl
  · exact h

theorem drainInv_addAct {s0 : State} (h0 : DrainInv s0) (t : Nat) (parent : Option Nat) (pc : Pc) (once : Bool)
    (hpc1 : pc.taskPair = none) (hpc2 : pc.wfpOf = none) : DrainInv (addAct s0 t parent pc once).1 := by
  let n : Act := { thread := t, pc := pc, parent := parent, child := none, woken := false, result := none, mode := .await, once := once }
  have h1 : DrainInv ({ s0 with acts := s0.acts ++ [n], nextOp := s0.nextOp + 1 } : State) := DrainInv.append_act h0 rfl hpc1 hpc2 rfl rfl
  unfold addAct
  cases parent with
  | none => exact h1
  | some p =>
    simp only
    have := drainInv_setChild h1 p (some s0.acts.length)
    split
    · next pv hpv => simp only [n, hpv] at this; exact this
    · exact h1

theorem drainInv_invoke {s s' : State} {t a : Nat} {parent : Option Nat} {c : Call} (h : DrainInv s)
    (hs : invoke s t parent c = some (s', a)) : DrainInv s' := by
  unfold invoke at hs
  cases c <;> simp only at hs
  all_goals (repeat' split at hs)
  all_goals (try (simp at hs; done))
  all_goals (
    have hs' := congrArg Prod.fst (Option.some.inj hs)
    simp only at hs'
    subst hs'
    refine drainInv_addAct ?_ t parent _ _ (by simp [Pc.taskPair]) (by simp [Pc.wfpOf])
    first
      | exact h
      | exact DrainInv.append_futs h rfl rfl rfl
      | exact DrainInv.of_eq h (fun b => by simp) (by simp) (by simp)
      | (refine DrainInv.of_eq (DrainInv.append_futs (X := { s with futs := _, opFut := _ }) h rfl rfl rfl) (fun b => by simp [State.pcAt]) ?_ ?_ <;> (first | rfl | (split <;> (try split) <;> rfl)))
      | (split <;> (try split) <;> first | exact DrainInv.append_futs h rfl rfl rfl | exact DrainInv.of_eq (DrainInv.append_futs (X := { s with futs := _, opFut := _ }) h rfl rfl rfl) (fun b => by simp) (by simp) (by simp)))

theorem drainInv_bodyEnd {s s' : State} {a : Nat} {o : Obs} (h : DrainInv s) (hs : bodyEnd s a = some (s', o)) : DrainInv s' := by
  unfold bodyEnd at hs
  split at hs
  · next act ha =>
    split at hs
    · simp at hs
    · split at hs
      · next op k hpc =>
        obtain ⟨rfl, _⟩ := Prod.mk.inj (Option.some.inj hs)
        exact DrainInv.frame h (fun _ => rfl) (fun _ => rfl) (fun _ => rfl) (fun _ _ hq' => hq') (Or.inr (by rw [pcAt_of ha, hpc]; rfl)) (Or.inr (by rw [pcAt_of ha, hpc]; rfl))
      · simp at hs
  · simp at hs

theorem drainInv_spuriousUnpark {s s' : State} {a : Nat} {o : Obs} (h : DrainInv s) (hs : spuriousUnpark s a = some (s', o)) : DrainInv s' := by
  unfold spuriousUnpark at hs
  split at hs
  · next act ha =>
    split at hs
    · next q j k hpc =>
      obtain ⟨rfl, _⟩ := Prod.mk.inj (Option.some.inj hs)
      exact DrainInv.frame h (fun _ => rfl) (fun _ => rfl) (fun _ => rfl) (fun _ _ hq' => hq') (Or.inl rfl) (Or.inl rfl)
    · simp at hs
  · simp at hs

theorem drainInv_spuriousPoll {s s' : State} {a : Nat} (h : DrainInv s) (hs : spuriousPoll s a = some s') : DrainInv s' := by
  unfold spuriousPoll at hs
  split at hs
  · next act ha =>
    split at hs
    · cases Option.some.inj hs
      exact DrainInv.frame h (fun _ => rfl) (fun _ => rfl) (fun _ => rfl) (fun _ _ hq' => hq') (Or.inl rfl) (Or.inl rfl)
    · cases Option.some.inj hs
      exact DrainInv.frame h (fun _ => rfl) (fun _ => rfl) (fun _ => rfl) (fun _ _ hq' => hq') (Or.inl rfl) (Or.inl rfl)
    · simp at hs
  · simp at hs

theorem drainInv_ret {s s' : State} {a r : Nat} (h : DrainInv s) (hs : retStep s a = some (s', r)) : DrainInv s' := by
  unfold retStep at hs
  split at hs
  · next act ha =>
    split at hs
    · next hpc =>
      obtain ⟨rfl, _⟩ := Prod.mk.inj (Option.some.inj hs)
      have h1 : DrainInv (s.setAct a { act with pc := .dead }) :=
        DrainInv.frame_setAct h (fun _ => rfl) (fun _ => rfl) (fun _ => rfl) (fun _ _ hq' => hq') (Or.inl rfl) (Or.inl rfl)
      split
      · next p hp => exact drainInv_setChild h1 p none
      · exact h1
    · simp at hs
  · simp at hs

/-- **DrainInv holds in every reachable state.** -/
theorem drainInv_reachable {s : State} (hr : Reachable s) : DrainInv s := by
  induction hr with
  | init nq ng max => exact drainInv_init nq ng max
  | initP ps ng max => exact drainInv_initP ps ng max
  | step l hprev hstep ih =>
    have hh := holderInv_reachable hprev
    obtain ⟨hw, _⟩ := fullInv_reachable hprev
    cases l with
    | act a =>
      simp only [next, Option.map_eq_some_iff] at hstep
      obtain ⟨⟨s1, o⟩, hs, rfl⟩ := hstep
      exact drainInv_stepAct hh hw ih hs
    | invoke t parent c =>
      simp only [next] at hstep
      split at hstep
      · simp only [Option.map_eq_some_iff] at hstep
        obtain ⟨⟨s1, a⟩, hs, rfl⟩ := hstep
        exact drainInv_invoke ih hs
      · simp at hstep
    | bodyEnd a =>
      simp only [next, Option.map_eq_some_iff] at hstep
      obtain ⟨⟨s1, o⟩, hs, rfl⟩ := hstep
      exact drainInv_bodyEnd ih hs
    | ret a =>
      simp only [next, Option.map_eq_some_iff] at hstep
      obtain ⟨⟨s1, r⟩, hs, rfl⟩ := hstep
      exact drainInv_ret ih hs
    | spuriousUnpark a =>
      simp only [next, Option.map_eq_some_iff] at hstep
      obtain ⟨⟨s1, o⟩, hs, rfl⟩ := hstep
      exact drainInv_spuriousUnpark ih hs
    | spuriousPoll a =>
      simp only [next] at hstep
      exact drainInv_spuriousPoll ih hstep

/-- **A queue that waits to be polled waits for a future of its own whose `draining` flag is set**, in every reachable state:
so `Drop for SchedulerFuture`, which looks at the queue only when the flag is set, never overlooks the queue it is the
designated poller of (`C07.dropped_poller_hands_back` then says the queue is handed back). -/
theorem designated_poller_is_draining {s : State} (hr : Reachable s) {q f : Nat} {v : JobQ}
    (hv : s.qs[q]? = some v) (hst : v.state = .waitingForPoll f) :
    ∃ fu, s.futs[f]? = some fu ∧ fu.draining = true ∧ fu.q = q := by
  have h := (drainInv_reachable hr).wq q f (by rw [qSt_of hv, hst])
  cases hf : s.futs[f]? with
  | none => simp [State.futDr, hf] at h
  | some fu =>
    refine ⟨fu, rfl, ?_, ?_⟩
    · simpa [State.futDr, hf] using h.1
    · simpa [State.futQ, hf] using h.2

end Desync
