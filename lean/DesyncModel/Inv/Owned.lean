/-
No orphaned queues (C03, C04, C09; the class of defects F1 and F5): a queue whose state says somebody is running it
(`running`, `awokenWhileRunning`, `waitingForUnpark`) always has an owner, and that owner is an activity whose program counter
is inside the code that runs this queue.  So no call can return — and no thread can go away — leaving a queue marked as
running behind: such a queue would refuse `try_sync` forever, make `sync` wait forever and never run its jobs.

This is the converse of `HolderInv.held` (an owned queue is in one of those states).
-/
import DesyncModel.Inv.DrainStep
namespace Desync
open Gen

def State.hol (s : State) (q : Nat) : Option (Option Nat) := s.holder[q]?

structure OwnedInv (s : State) : Prop where
  owned : ∀ q st, s.qSt q = some st → st.held = true → ∃ a, s.hol q = some (some a)

theorem hol_congr {X s : State} (h : X.holder = s.holder) (q : Nat) : X.hol q = s.hol q := by simp only [State.hol, h]

theorem hol_setHolder {s : State} {q : Nat} (hlt : q < s.holder.length) (x : Option Nat) (i : Nat) :
    (s.setHolder q x).hol i = if i = q then some x else s.hol i := by
  simp only [State.hol, holder_setHolder, List.getElem?_set]
  by_cases h : q = i
  · subst h; simp [hlt]
  · have : ¬ i = q := fun e => h e.symm
    simp [h, this]

/-- nothing about states or owners changes -/
theorem OwnedInv.of_eq {s X : State} (h : OwnedInv s) (hq : ∀ q, X.qSt q = s.qSt q) (hh : ∀ q, X.hol q = s.hol q) : OwnedInv X :=
  ⟨fun q st hs hheld => by rw [hh]; rw [hq] at hs; exact h.owned q st hs hheld⟩

/-- a queue's state is rewritten without touching the owners: fine when the new state is only `held` if the old one was -/
theorem OwnedInv.setQ_keep {s : State} {q : Nat} {v v' : JobQ} (h : OwnedInv s) (hv : s.qs[q]? = some v)
    (hk : v'.state.held = true → v.state.held = true) : OwnedInv (s.setQ q v') := by
  refine ⟨?_⟩
  intro i st hs hheld
  rw [hol_congr (holder_setQ s q v') i]
  rw [qSt_setQ hv] at hs
  split at hs
  · next e =>
    subst e
    simp only [Option.some.injEq] at hs
    subst hs
    exact h.owned i v.state (qSt_of hv) (hk hheld)
  · exact h.owned i st hs hheld

/-- the queue gets an owner in the critical section that rewrites its state -/
theorem OwnedInv.grant {s X : State} {q a : Nat} (h : OwnedInv s) (hlt : q < X.holder.length)
    (hq : ∀ i, i ≠ q → X.qSt i = s.qSt i) (hh : X.holder = s.holder) : OwnedInv (X.setHolder q (some a)) := by
  refine ⟨?_⟩
  intro i st hs hheld
  rw [hol_setHolder hlt]
  split
  · exact ⟨a, rfl⟩
  · next hne =>
    have : (X.setHolder q (some a)).qSt i = X.qSt i := qSt_congr (by simp) i
    rw [this, hq i hne] at hs
    rw [hol_congr hh]
    exact h.owned i st hs hheld

/-- the owner lets go in the critical section that puts the queue into a state nobody is running it in -/
theorem OwnedInv.release {s X : State} {q : Nat} (h : OwnedInv s) (hlt : q < X.holder.length)
    (hq : ∀ i, i ≠ q → X.qSt i = s.qSt i) (hnew : ∀ st, X.qSt q = some st → st.held = false) (hh : X.holder = s.holder) :
    OwnedInv (X.setHolder q none) := by
  refine ⟨?_⟩
  intro i st hs hheld
  have hX : (X.setHolder q none).qSt i = X.qSt i := qSt_congr (by simp) i
  rw [hX] at hs
  rw [hol_setHolder hlt]
  split
  · next e => subst e; have := hnew st hs; rw [hheld] at this; cases this
  · next hne =>
    rw [hq i hne] at hs
    rw [hol_congr hh]
    exact h.owned i st hs hheld

/-! ### what the decision tables do to the "somebody is running it" states -/

theorem desyncPush_heldNew {st : QState} (h : (desyncPush st).1.held = true) : st.held = true := by
  cases st <;> simp_all [desyncPush, QState.held]
theorem syncDecide_heldNew {st : QState} {e : Bool} (h : (syncDecide st e).1.held = true) :
    st.held = true ∨ (syncDecide st e).2 = .immediate ∨ (syncDecide st e).2 = .drain := by
  cases st <;> cases e <;> simp_all [syncDecide, QState.held]
theorem syncNoPanicDecide_heldNew {st : QState} {e : Bool} (h : (syncNoPanicDecide st e).1.held = true) :
    st.held = true ∨ (syncNoPanicDecide st e).2 = .immediate ∨ (syncNoPanicDecide st e).2 = .drain := by
  cases st <;> cases e <;> simp_all [syncNoPanicDecide, QState.held]
theorem trySyncDecide_heldNew {st : QState} {e : Bool} (h : (trySyncDecide st e).1.held = true) :
    st.held = true ∨ (trySyncDecide st e).2 = .immediate := by
  cases st <;> cases e <;> simp_all [trySyncDecide, QState.held]
theorem pollDecide_heldNew {self : Nat} {st : QState} (h : (pollDecide self st).1.held = true) :
    st.held = true ∨ (pollDecide self st).2.1 = .drain := by
  cases st <;> simp_all [pollDecide, QState.held]
  split <;> simp_all
theorem futureDropDecide_heldNew {self : Nat} {st : QState} (h : (futureDropDecide self st).1.held = true) : st.held = true := by
  cases st <;> simp_all [futureDropDecide, QState.held]
  rename_i f
  by_cases e : f = self <;> simp_all [QState.held]
theorem claim_heldNew {st : QState} (h : (claim st).1.held = true) : st.held = true ∨ (claim st).2 = true := by
  cases st <;> simp_all [claim, QState.held]
theorem reschedule_heldNew {st : QState} {e : Bool} (h : (reschedule st e).1.held = true) : st.held = true := by
  cases st <;> cases e <;> simp_all [reschedule, QState.held]
theorem nextToRun_heldNew {st : QState} (h : (nextToRun st).1.held = true) : st.held = true ∨ (nextToRun st).2 = true := by
  cases st <;> simp_all [nextToRun, QState.held]
theorem drainPending_heldNew {st : QState} (h : (drainPending st).1.held = true) : st.held = true := by
  cases st <;> simp_all [drainPending, QState.held]
theorem drainPending_release {st : QState} (h : (drainPending st).2 = true) : (drainPending st).1.held = false := by
  cases st <;> simp_all [drainPending, QState.held]
theorem drainExit_heldNew {st : QState} {e : Bool} (h : (drainExit st e).1.held = true) : st.held = true := by
  cases st <;> cases e <;> simp_all [drainExit, QState.held]
theorem drainExit_release {st : QState} {e : Bool} (h : (drainExit st e).2 = true) : (drainExit st e).1.held = false := by
  cases st <;> cases e <;> simp_all [drainExit, QState.held]
theorem runOnePending_heldNew {st : QState} (h : (runOnePending st).1.held = true) : st.held = true := by
  cases st <;> simp_all [runOnePending, QState.held]
theorem wakeQueue_heldNew {st : QState} (h : (wakeQueue st).1.held = true) : st.held = true := by
  cases st <;> simp_all [wakeQueue, QState.held]
theorem wakeThread_heldNew {st : QState} (h : (wakeThread st).held = true) : st.held = true := by
  cases st <;> simp_all [wakeThread, QState.held]

@[simp] theorem hol_setQ (s : State) (q : Nat) (v : JobQ) (i : Nat) : (s.setQ q v).hol i = s.hol i := hol_congr (by simp) i
@[simp] theorem hol_setJob (s : State) (j : Nat) (v : Job) (i : Nat) : (s.setJob j v).hol i = s.hol i := hol_congr (by simp) i
@[simp] theorem hol_setGate (s : State) (g : Nat) (v : Gate) (i : Nat) : (s.setGate g v).hol i = s.hol i := hol_congr (by simp) i
@[simp] theorem hol_setAct (s : State) (a : Nat) (v : Act) (i : Nat) : (s.setAct a v).hol i = s.hol i := hol_congr (by simp) i
@[simp] theorem hol_setSf (s : State) (u : Nat) (v : SyncFut) (i : Nat) : (s.setSf u v).hol i = s.hol i := hol_congr (by simp) i
@[simp] theorem hol_setPThr (s : State) (p : Nat) (v : PThr) (i : Nat) : (s.setPThr p v).hol i = s.hol i := hol_congr (by simp) i
@[simp] theorem hol_takeReady (s : State) (w a : Nat) (i : Nat) : (s.takeReady w a).hol i = s.hol i := hol_congr (by simp) i
@[simp] theorem hol_dropReady (s : State) (w : Nat) (i : Nat) : (s.dropReady w).hol i = s.hol i := hol_congr (by simp) i
@[simp] theorem hol_goto (s : State) (a : Nat) (pc : Pc) (i : Nat) : (s.goto a pc).hol i = s.hol i := hol_congr (by simp) i
@[simp] theorem hol_setWoken (s : State) (a : Nat) (b : Bool) (i : Nat) : (s.setWoken a b).hol i = s.hol i := hol_congr (by simp) i
@[simp] theorem hol_notify (s : State) (w : Nat) (i : Nat) : (s.notify w).hol i = s.hol i := hol_congr (by simp) i
@[simp] theorem hol_setFut (s : State) (f : Nat) (v : Fut) (i : Nat) : (s.setFut f v).hol i = s.hol i := hol_congr (by simp) i
@[simp] theorem hol_setJobPh (s : State) (j : Nat) (ph : Phase) (i : Nat) : (s.setJobPh j ph).hol i = s.hol i := hol_congr (by simp) i
@[simp] theorem hol_setQState (s : State) (q : Nat) (st : QState) (i : Nat) : (s.setQState q st).hol i = s.hol i := hol_congr (by simp) i
@[simp] theorem hol_pushFront (s : State) (q j : Nat) (i : Nat) : (s.pushFront q j).hol i = s.hol i := hol_congr (by simp) i
@[simp] theorem hol_pushBack (s : State) (q j : Nat) (i : Nat) : (s.pushBack q j).hol i = s.hol i := hol_congr (by simp) i

theorem holder_dequeue (s : State) (q a : Nat) : (s.dequeue q a).1.holder = s.holder := by
  unfold State.dequeue
  split
  · split
    · split <;> simp
    · rfl
  · rfl
@[simp] theorem hol_dequeue (s : State) (q a i : Nat) : (s.dequeue q a).1.hol i = s.hol i := hol_congr (holder_dequeue s q a) i

theorem OwnedInv.table_grant {s : State} {q a : Nat} {v v' : JobQ} (hh : HolderInv s) (h : OwnedInv s) (hv : s.qs[q]? = some v) :
    OwnedInv ((s.setQ q v').setHolder q (some a)) := by
  have hlt : q < s.holder.length := by rw [hh.len]; exact (List.getElem?_eq_some_iff.mp hv).1
  refine OwnedInv.grant h (by simpa using hlt) (fun i hne => ?_) (by simp)
  rw [qSt_setQ hv]; simp [hne]

theorem OwnedInv.table_release {s : State} {q : Nat} {v v' : JobQ} (hh : HolderInv s) (h : OwnedInv s) (hv : s.qs[q]? = some v)
    (hn : v'.state.held = false) : OwnedInv ((s.setQ q v').setHolder q none) := by
  have hlt : q < s.holder.length := by rw [hh.len]; exact (List.getElem?_eq_some_iff.mp hv).1
  refine OwnedInv.release h (by simpa using hlt) (fun i hne => ?_) (fun st hs => ?_) (by simp)
  · rw [qSt_setQ hv]; simp [hne]
  · rw [qSt_setQ hv] at hs; simp at hs; rw [← hs]; exact hn

theorem OwnedInv.lit_release {s : State} {q : Nat} {st' : QState} (hh : HolderInv s) (h : OwnedInv s) (hn : st'.held = false) :
    OwnedInv ((s.setQState q st').setHolder q none) := by
  unfold State.setQState
  split
  · next v hv => exact OwnedInv.table_release hh h hv hn
  · next hnone =>
    -- no such queue: neither update does anything
    have hge : s.holder.length ≤ q := by
      rw [hh.len]; simpa using hnone
    refine OwnedInv.of_eq h (fun i => qSt_congr (by simp) i) (fun i => ?_)
    simp only [State.hol, holder_setHolder, List.getElem?_set]
    by_cases e : q = i
    · subst e; simp [Nat.not_lt.mpr hge]
    · simp [e]

theorem OwnedInv.same {s Y : State} (h : OwnedInv s) (hq : Y.qs = s.qs) (hh : Y.holder = s.holder) : OwnedInv Y :=
  OwnedInv.of_eq h (fun i => qSt_congr hq i) (fun i => hol_congr hh i)

theorem OwnedInv.goto_of {Y : State} {a : Nat} {pc : Pc} (h : OwnedInv Y) : OwnedInv (Y.goto a pc) := OwnedInv.same h (by simp) (by simp)
theorem OwnedInv.setAct_of {Y : State} {a : Nat} {v : Act} (h : OwnedInv Y) : OwnedInv (Y.setAct a v) := OwnedInv.same h (by simp) (by simp)
theorem OwnedInv.setJob_of {Y : State} {j : Nat} {v : Job} (h : OwnedInv Y) : OwnedInv (Y.setJob j v) := OwnedInv.same h (by simp) (by simp)

/-- variants over a state `Y` that has the queues and owners of `s` -/
theorem OwnedInv.keepY {s Y : State} {q : Nat} {v v' : JobQ} (hh : HolderInv s) (h : OwnedInv s) (hq : Y.qs = s.qs) (hho : Y.holder = s.holder)
    (hv : s.qs[q]? = some v) (hk : v'.state.held = true → v.state.held = true) : OwnedInv (Y.setQ q v') :=
  OwnedInv.setQ_keep (OwnedInv.same h hq hho) (by rw [hq]; exact hv) hk

theorem OwnedInv.grantY {s Y : State} {q a : Nat} {v v' : JobQ} (hh : HolderInv s) (h : OwnedInv s) (hq : Y.qs = s.qs) (hho : Y.holder = s.holder)
    (hv : s.qs[q]? = some v) : OwnedInv ((Y.setQ q v').setHolder q (some a)) := by
  have hlt : q < Y.holder.length := by rw [hho, hh.len]; exact (List.getElem?_eq_some_iff.mp hv).1
  refine OwnedInv.grant (OwnedInv.same h hq hho) (by simpa using hlt) (fun i hne => ?_) (by simp)
  rw [qSt_setQ (by rw [hq]; exact hv)]; simp [hne]

theorem OwnedInv.releaseY {s Y : State} {q : Nat} {v v' : JobQ} (hh : HolderInv s) (h : OwnedInv s) (hq : Y.qs = s.qs) (hho : Y.holder = s.holder)
    (hv : s.qs[q]? = some v) (hn : v'.state.held = false) : OwnedInv ((Y.setQ q v').setHolder q none) := by
  have hlt : q < Y.holder.length := by rw [hho, hh.len]; exact (List.getElem?_eq_some_iff.mp hv).1
  refine OwnedInv.release (OwnedInv.same h hq hho) (by simpa using hlt) (fun i hne => ?_) (fun st hs => ?_) (by simp)
  · rw [qSt_setQ (by rw [hq]; exact hv)]; simp [hne]
  · rw [qSt_setQ (by rw [hq]; exact hv)] at hs; simp at hs; rw [← hs]; exact hn

theorem OwnedInv.litY {s Y : State} {q : Nat} {st' : QState} (hh : HolderInv s) (h : OwnedInv s) (hq : Y.qs = s.qs) (hho : Y.holder = s.holder)
    (hn : st'.held = false) : OwnedInv ((Y.setQState q st').setHolder q none) := by
  unfold State.setQState
  split
  · next v hv => exact OwnedInv.releaseY hh h hq hho (by rw [← hq]; exact hv) hn
  · next hnone =>
    have hge : Y.holder.length ≤ q := by
      rw [hho, hh.len, ← hq]; simpa using hnone
    refine OwnedInv.of_eq (OwnedInv.same h hq hho) (fun i => qSt_congr (by simp) i) (fun i => ?_)
    simp only [State.hol, holder_setHolder, List.getElem?_set]
    by_cases e : q = i
    · subst e; simp [Nat.not_lt.mpr hge]
    · simp [e]

/-- the owner is set on a state `Z` whose queue `q` is the only one that differs from `s` -/
theorem OwnedInv.grantZ {s Z : State} {q a : Nat} {v : JobQ} (hh : HolderInv s) (h : OwnedInv s) (hv : s.qs[q]? = some v)
    (hZq : ∀ i, i ≠ q → Z.qSt i = s.qSt i) (hZh : Z.holder = s.holder) : OwnedInv (Z.setHolder q (some a)) := by
  have hlt : q < Z.holder.length := by rw [hZh, hh.len]; exact (List.getElem?_eq_some_iff.mp hv).1
  exact OwnedInv.grant h hlt hZq hZh

theorem syncDecide_heldKeep {st : QState} {e : Bool} (h1 : ¬ (syncDecide st e).2 = .immediate) (h2 : ¬ (syncDecide st e).2 = .drain)
    (hk : (syncDecide st e).1.held = true) : st.held = true := by
  rcases syncDecide_heldNew hk with h | h | h
  · exact h
  · exact absurd h h1
  · exact absurd h h2
theorem syncNoPanicDecide_heldKeep {st : QState} {e : Bool} (h1 : ¬ (syncNoPanicDecide st e).2 = .immediate) (h2 : ¬ (syncNoPanicDecide st e).2 = .drain)
    (hk : (syncNoPanicDecide st e).1.held = true) : st.held = true := by
  rcases syncNoPanicDecide_heldNew hk with h | h | h
  · exact h
  · exact absurd h h1
  · exact absurd h h2
theorem trySyncDecide_heldKeep {st : QState} {e : Bool} (h1 : ¬ (trySyncDecide st e).2 = .immediate)
    (hk : (trySyncDecide st e).1.held = true) : st.held = true := by
  rcases trySyncDecide_heldNew hk with h | h
  · exact h
  · exact absurd h h1
theorem pollDecide_heldKeep {self : Nat} {st : QState} (h1 : ¬ (pollDecide self st).2.1 = .drain)
    (hk : (pollDecide self st).1.held = true) : st.held = true := by
  rcases pollDecide_heldNew hk with h | h
  · exact h
  · exact absurd h h1
theorem claim_heldKeep {st : QState} (h1 : ¬ (claim st).2 = true) (hk : (claim st).1.held = true) : st.held = true := by
  rcases claim_heldNew hk with h | h
  · exact h
  · exact absurd h h1
theorem nextToRun_heldKeep {st : QState} (h1 : ¬ (nextToRun st).2 = true) (hk : (nextToRun st).1.held = true) : st.held = true := by
  rcases nextToRun_heldNew hk with h | h
  · exact h
  · exact absurd h h1

theorem OwnedInv.keepY_upd {s Z : State} {q : Nat} {v v' : JobQ} (hh : HolderInv s) (h : OwnedInv s)
    (hZq : Z.qs = (s.setQ q v').qs) (hZh : Z.holder = s.holder) (hv : s.qs[q]? = some v)
    (hk : v'.state.held = true → v.state.held = true) : OwnedInv Z :=
  OwnedInv.same (OwnedInv.keepY hh h rfl rfl hv hk) hZq (by rw [hZh]; rfl)

end Desync
