/-
I_pending: a queue in the `Pending` state is on the schedule, or in the hands of a call that is about to put it there
(`schedule_job_desync` between its two critical sections; `reschedule_queue` while it notifies the waiting sync callers).
Together with I_watch (a queue on the schedule always has a watcher) this is the "no further API call is needed to kick the
queue" half of C03 at the level of the scheduler's bookkeeping.
-/
import DesyncModel.Inv.DrainStep
import DesyncModel.Inv.PoolSimBase

namespace Desync
open Gen

/-- the activity is about to push queue `q` on the schedule -/
def Pc.pushes : Pc → Nat → Bool
  | .dsSched q', q => q' == q
  | .rqPush q' _, q => q' == q
  | .rqNotifyAcq q' _ r _, q | .rqNotify q' _ r _, q | .rqNotifyRel q' _ r _, q => r && q' == q
  | _, _ => false

structure PendInv (s : State) : Prop where
  pend : ∀ q, s.qSt q = some .pending → q ∈ s.schedule ∨ ∃ a, (s.pcAt a).pushes q = true

theorem PendInv.step {s X : State} {a : Nat} (h : PendInv s)
    (hoth : ∀ b, b ≠ a → ∀ q, (s.pcAt b).pushes q = true → (X.pcAt b).pushes q = true)
    (hsch : ∀ q, q ∈ s.schedule → q ∈ X.schedule ∨ X.qSt q ≠ some .pending)
    (hq : ∀ q, X.qSt q = some .pending → s.qSt q = some .pending ∨ (X.pcAt a).pushes q = true)
    (hmine : ∀ q, (s.pcAt a).pushes q = true → (X.pcAt a).pushes q = true ∨ q ∈ X.schedule) : PendInv X := by
  refine ⟨?_⟩
  intro q hp
  rcases hq q hp with h1 | h1
  · rcases h.pend q h1 with h2 | ⟨b, h2⟩
    · rcases hsch q h2 with h3 | h3
      · exact Or.inl h3
      · exact absurd hp h3
    · by_cases hba : b = a
      · subst hba
        rcases hmine q h2 with h3 | h3
        · exact Or.inr ⟨b, h3⟩
        · exact Or.inl h3
      · exact Or.inr ⟨b, hoth b hba q h2⟩
  · exact Or.inr ⟨a, h1⟩

/-- the usual case: the schedule is untouched and the other activities do not move -/
theorem PendInv.step' {s X : State} {a : Nat} (h : PendInv s)
    (hoth : ∀ b, b ≠ a → X.pcAt b = s.pcAt b) (hsch : X.schedule = s.schedule)
    (hq : ∀ q, X.qSt q = some .pending → s.qSt q = some .pending ∨ (X.pcAt a).pushes q = true)
    (hmine : ∀ q, (s.pcAt a).pushes q = true → (X.pcAt a).pushes q = true ∨ q ∈ X.schedule) : PendInv X :=
  PendInv.step h (fun b hba q hp => by rw [hoth b hba]; exact hp) (fun q hm => Or.inl (by rw [hsch]; exact hm)) hq hmine

/-! ### the decision tables never make a queue `Pending` except `schedule_job_desync` and `reschedule_queue`, which then schedule it -/

theorem desyncPush_pend {st : QState} (h : (desyncPush st).1 = .pending) : st = .pending ∨ (desyncPush st).2 = .schedule := by
  cases st <;> simp_all [desyncPush]
theorem reschedule_pend {st : QState} {e : Bool} (h : (reschedule st e).1 = .pending) : st = .pending ∨ (reschedule st e).2 = true := by
  cases st <;> cases e <;> simp_all [reschedule]
theorem syncDecide_pend {st : QState} {e : Bool} (h : (syncDecide st e).1 = .pending) : st = .pending := by
  cases st <;> cases e <;> simp_all [syncDecide]
theorem syncNoPanicDecide_pend {st : QState} {e : Bool} (h : (syncNoPanicDecide st e).1 = .pending) : st = .pending := by
  cases st <;> cases e <;> simp_all [syncNoPanicDecide]
theorem trySyncDecide_pend {st : QState} {e : Bool} (h : (trySyncDecide st e).1 = .pending) : st = .pending := by
  cases st <;> cases e <;> simp_all [trySyncDecide]
theorem pollDecide_pend {self : Nat} {st : QState} (h : (pollDecide self st).1 = .pending) : st = .pending := by
  cases st <;> simp_all [pollDecide]
  split at h <;> simp_all
theorem futureDropDecide_pend {self : Nat} {st : QState} (h : (futureDropDecide self st).1 = .pending) : st = .pending := by
  cases st <;> simp_all [futureDropDecide]
  split at h <;> simp_all
theorem claim_pend {st : QState} (h : (claim st).1 = .pending) : st = .pending := by
  cases st <;> simp_all [claim]
theorem nextToRun_pend {st : QState} (h : (nextToRun st).1 = .pending) : False := by
  cases st <;> simp_all [nextToRun]
theorem drainPending_pend {st : QState} (h : (drainPending st).1 = .pending) : st = .pending := by
  cases st <;> simp_all [drainPending]
theorem drainExit_pend {st : QState} {e : Bool} (h : (drainExit st e).1 = .pending) : st = .pending := by
  cases st <;> cases e <;> simp_all [drainExit]
theorem runOnePending_pend {st : QState} (h : (runOnePending st).1 = .pending) : st = .pending := by
  cases st <;> simp_all [runOnePending]
theorem wakeQueue_pend {st : QState} (h : (wakeQueue st).1 = .pending) : st = .pending := by
  cases st <;> simp_all [wakeQueue]
theorem wakeThread_pend {st : QState} (h : wakeThread st = .pending) : st = .pending := by
  cases st <;> simp_all [wakeThread]

theorem qSt_setQState_cases {s : State} {q i : Nat} {st x : QState} (h : (s.setQState q st).qSt i = some x) : x = st ∨ s.qSt i = some x := by
  unfold State.setQState at h
  split at h
  · next v hv =>
    rw [qSt_setQ hv] at h
    split at h
    · left; exact (Option.some.inj h).symm
    · exact Or.inr h
  · exact Or.inr h

end Desync
