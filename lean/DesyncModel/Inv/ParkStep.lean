/-
I_park is preserved by every internal step.
-/
import DesyncModel.Inv.Park

namespace Desync
open Gen

set_option hygiene false in
macro "park_tab" : tactic => `(tactic| first
  | (have e := syncDecide_wfu hp; exact Or.inl (by rw [qSt_of ‹s.qs[_]? = some _›, e]))
  | (have e := syncNoPanicDecide_wfu hp; exact Or.inl (by rw [qSt_of ‹s.qs[_]? = some _›, e]))
  | (have e := trySyncDecide_wfu hp; exact Or.inl (by rw [qSt_of ‹s.qs[_]? = some _›, e]))
  | (have e := pollDecide_wfu hp; exact Or.inl (by rw [qSt_of ‹s.qs[_]? = some _›, e]))
  | (have e := futureDropDecide_wfu hp; exact Or.inl (by rw [qSt_of ‹s.qs[_]? = some _›, e]))
  | (have e := claim_wfu hp; exact Or.inl (by rw [qSt_of ‹s.qs[_]? = some _›, e]))
  | (have e := nextToRun_wfu hp; exact Or.inl (by rw [qSt_of ‹s.qs[_]? = some _›, e]))
  | (have e := drainPending_wfu hp; exact Or.inl (by rw [qSt_of ‹s.qs[_]? = some _›, e]))
  | (have e := drainExit_wfu hp; exact Or.inl (by rw [qSt_of ‹s.qs[_]? = some _›, e]))
  | (have e := wakeQueue_wfu hp; exact Or.inl (by rw [qSt_of ‹s.qs[_]? = some _›, e]))
  | (have e := wakeThread_wfu hp; exact Or.inl (by rw [qSt_of ‹s.qs[_]? = some _›, e]))
  | (have e := desyncPush_wfu hp; exact Or.inl (by rw [qSt_of ‹s.qs[_]? = some _›, e]))
  | (have e := reschedule_wfu hp; exact Or.inl (by rw [qSt_of ‹s.qs[_]? = some _›, e]))
  | (exact Or.inl (by rw [qSt_of ‹s.qs[_]? = some _›, hp])))

set_option hygiene false in
macro "park_q" : tactic => `(tactic| (
  intro q hp
  simp only [qSt_goto, qSt_setAct, qSt_setHolder, qSt_setJob, qSt_setGate, qSt_setSf, qSt_setPThr, qSt_takeReady, qSt_dropReady, qSt_setWoken,
             qSt_notify, qSt_setFut, qSt_pushFront, qSt_pushBack, qSt_setJobPh, qSt_dequeue] at hp
  first
  | exact Or.inl hp
  | (simp only [State.qSt] at hp ⊢; exact Or.inl hp)
  | (rcases qSt_setQState_cases hp with h1 | h1
     · cases h1
     · exact Or.inl h1)
  | (rw [qSt_setQ ‹s.qs[_]? = some _›] at hp
     split at hp
     · next e =>
       subst e
       simp only [Option.some.injEq] at hp
       park_tab
     · exact Or.inl hp)))

set_option hygiene false in
macro "park_mine" : tactic => `(tactic| (
  intro q hp
  rw [hpca, ‹act.pc = _›] at hp
  first
  | (simp [Pc.parks] at hp; done)
  | (left
     first
     | (rw [pcAt_goto_self _ (by simpa [dequeue_acts] using hlt)]; simp [Pc.parks] at hp ⊢; first | exact hp | (simp_all; done))
     | (rw [pcAt_setAct_self _ (by simpa [dequeue_acts] using hlt)]; simp [Pc.parks] at hp ⊢; first | exact hp | (simp_all; done)))))

set_option hygiene false in
macro "park_nomine" : tactic => `(tactic| (intro q hp; rw [hpca, hpc] at hp; simp [Pc.parks] at hp))

/-- a step that rewrites the state of one queue (and perhaps other things the invariant does not read) -/
theorem park_table {s X : State} {a q0 : Nat} {v : JobQ} {st' : QState} (h : ParkInv s) (hv : s.qs[q0]? = some v)
    (hXq : ∀ q, X.qSt q = if q = q0 then some st' else s.qSt q) (hoth : ∀ b, b ≠ a → X.pcAt b = s.pcAt b)
    (htab : st' = .waitingForUnpark → v.state = .waitingForUnpark ∨ (X.pcAt a).parks q0 = true)
    (hmine : ∀ q, (s.pcAt a).parks q = true → (X.pcAt a).parks q = true ∨ X.qSt q ≠ some .waitingForUnpark) : ParkInv X := by
  refine ParkInv.step' (a := a) h hoth ?_ hmine
  intro q hp
  rw [hXq] at hp
  split at hp
  · next e =>
    subst e
    rcases htab (Option.some.inj hp) with h1 | h1
    · left; rw [qSt_of hv, h1]
    · exact Or.inr h1
  · exact Or.inl hp

theorem qSt_of_qs_set {s X : State} {q : Nat} {v v' : JobQ} (hv : s.qs[q]? = some v) (hX : X.qs = s.qs.set q v') (i : Nat) :
    X.qSt i = if i = q then some v'.state else s.qSt i := by
  have hlen := lt_of_getElem?_some hv
  simp only [State.qSt, hX, List.getElem?_set]
  by_cases hi : q = i
  · subst hi; simp [hlen]
  · have : ¬ i = q := fun e => hi e.symm
    simp [hi, this]

theorem park_stSpawn {s s' : State} {a : Nat} {o : Obs} (h : ParkInv s) (act : Act) (ha : s.acts[a]? = some act) (hc : act.child = none) (m : Nat) (k : Pc)
    (hpc : act.pc = .stSpawn m k) (hs : stepAct s a = some (s', o)) : ParkInv s' := by
  pend_open
  split at hs
  · simp at hs
  · split at hs
    · pend_fin
      refine ParkInv.step (a := a) h ?_ (fun q hp => Or.inl (by simp only [qSt_goto] at hp; exact hp)) (by park_nomine)
      intro b hba q hp
      rw [pcAt_goto_ne _ hba]
      have hbl : b < s.acts.length := by
        by_cases hb : b < s.acts.length
        · exact hb
        · have h1 : s.acts[b]? = none := List.getElem?_eq_none (Nat.le_of_not_lt hb)
          have : s.pcAt b = .dead := by simp [State.pcAt, h1]
          rw [this] at hp; simp [Pc.parks] at hp
      simp only [State.pcAt, List.getElem?_append_left hbl]
      exact hp
    · pend_fin
      exact ParkInv.step' (a := a) h (by sim_oth) (fun q hp => Or.inl (by simpa using hp)) (by park_nomine)

theorem park_rjPending {s s' : State} {a : Nat} {o : Obs} (h : ParkInv s) (act : Act) (ha : s.acts[a]? = some act) (hc : act.child = none) (q j : Nat) (k : Pc)
    (hpc : act.pc = .rjPending q j k) (hs : stepAct s a = some (s', o)) : ParkInv s' := by
  pend_open
  split at hs
  · simp at hs
  · next v hv =>
    try dsimp only at hs
    have hXq : ∀ (Y : State), (∀ i, Y.qSt i = (s.setQ q { v with state := (runOnePending v.state).1 }).qSt i) →
        ∀ i, Y.qSt i = if i = q then some (runOnePending v.state).1 else s.qSt i := by
      intro Y hY i; rw [hY, qSt_setQ hv]
    split at hs
    · next hr =>
      pend_fin
      refine park_table (a := a) h hv (hXq _ (fun i => by simp)) (by sim_oth) ?_ (by park_nomine)
      intro _; right
      rw [pcAt_goto_self _ (by simpa using hlt)]; simp [Pc.parks]
    · split at hs
      · next hr1 hr2 =>
        pend_fin
        refine park_table (a := a) h hv (hXq _ (fun i => by simp)) (by sim_oth) ?_ (by park_nomine)
        intro hp; left
        rcases runOnePending_wfu hp with h1 | h1
        · exact h1
        · exact absurd h1 hr1
      · next hr1 hr2 =>
        split at hs
        · pend_fin
          refine park_table (a := a) h hv (hXq _ (fun i => by simp)) (by sim_oth) ?_ (by park_nomine)
          intro hp; left
          rcases runOnePending_wfu hp with h1 | h1
          · exact h1
          · exact absurd h1 hr1
        · pend_fin
          refine park_table (a := a) h hv (hXq _ (fun i => by simp)) (by sim_oth) ?_ (by park_nomine)
          intro hp; left
          rcases runOnePending_wfu hp with h1 | h1
          · exact h1
          · exact absurd h1 hr1

theorem qSt_of_qState {s : State} {q : Nat} {st : QState} (h : s.qSt q = some st) : s.qState q = st := by
  simp only [State.qSt] at h
  simp only [State.qState]
  cases hq : s.qs[q]? with
  | none => rw [hq] at h; cases h
  | some v => rw [hq] at h; simpa using h

theorem park_rjParkCheck {s s' : State} {a : Nat} {o : Obs} (h : ParkInv s) (act : Act) (ha : s.acts[a]? = some act) (hc : act.child = none) (q j : Nat) (k : Pc)
    (hpc : act.pc = .rjParkCheck q j k) (hs : stepAct s a = some (s', o)) : ParkInv s' := by
  pend_open
  have hmine : ∀ (X : State) (pc' : Pc), (∀ i, X.qSt i = s.qSt i) → parkCheck (s.qState q) ≠ .park →
      ∀ q', (s.pcAt a).parks q' = true → pc'.parks q' = true ∨ X.qSt q' ≠ some .waitingForUnpark := by
    intro X pc' hX hne q' hp
    rw [hpca, hpc] at hp
    simp only [Pc.parks, beq_iff_eq] at hp
    subst hp
    right
    intro hw
    rw [hX] at hw
    exact parkCheck_leaves hne (qSt_of_qState hw)
  split at hs
  · next hpk =>
    pend_fin
    refine ParkInv.step' (a := a) h (by sim_oth) (fun q' hp => Or.inl (by simpa using hp)) ?_
    intro q' hp
    rw [pcAt_goto_self _ (by simpa using hlt)]
    exact hmine _ _ (fun i => by simp) (by rw [hpk]; simp) q' hp
  · pend_fin
    refine ParkInv.step' (a := a) h (by sim_oth) (fun q' hp => Or.inl (by simpa using hp)) ?_
    intro q' hp
    left
    rw [hpca, hpc] at hp
    rw [pcAt_goto_self _ (by simpa using hlt)]
    simpa [Pc.parks] using hp
  · next hpk =>
    split at hs
    · pend_fin
      refine ParkInv.step' (a := a) h (by sim_oth) (fun q' hp => Or.inl (by simpa using hp)) ?_
      intro q' hp
      rw [pcAt_goto_self _ (by simpa using hlt)]
      exact hmine _ _ (fun i => by simp) (by rw [hpk]; simp) q' hp
    · pend_fin
      refine ParkInv.step' (a := a) h (by sim_oth) (fun q' hp => Or.inl (by simpa using hp)) ?_
      intro q' hp
      rw [pcAt_goto_self _ (by simpa using hlt)]
      exact hmine _ _ (fun i => by simp) (by rw [hpk]; simp) q' hp

set_option maxHeartbeats 4000000 in
set_option maxRecDepth 8000 in
theorem parkInv_stepAct {s s' : State} {a : Nat} {o : Obs} (h : ParkInv s) (hs : stepAct s a = some (s', o)) : ParkInv s' := by
  have hs0 := hs
  unfold stepAct at hs
  split at hs
  · simp at hs
  next act ha =>
  split at hs
  · simp at hs
  next hchild =>
  have hlt : a < s.acts.length := lt_of_getElem?_some ha
  have hpca := pcAt_of ha
  have hc : act.child = none := by
    cases hcc : act.child <;> simp_all
  split at hs
  all_goals (try (simp at hs; done))
  all_goals (try (first
      | exact park_stSpawn h act ha hc _ _ (by assumption) hs0
      | exact park_rjPending h act ha hc _ _ _ (by assumption) hs0
      | exact park_rjParkCheck h act ha hc _ _ _ (by assumption) hs0))
  all_goals (try dsimp only at hs)
  all_goals (repeat' split at hs)
  all_goals (try (simp at hs; done))
  all_goals (try (simp only [Option.some.injEq, Prod.mk.injEq] at hs; obtain ⟨rfl, _⟩ := hs))
  all_goals (first
      | (refine ParkInv.step' (a := a) h ?_ ?_ ?_
         · sim_oth
         · park_q
         · park_mine)
      | skip)
  -- steps that rewrite one queue's record inside a larger update
  all_goals (first
    | (apply park_table (a := a) h ‹s.qs[_]? = some _›
       case hXq =>
         intro i
         apply qSt_of_qs_set ‹s.qs[_]? = some _›
         simp only [qs_goto, qs_setHolder, qs_setAct, qs_setQ]
         rfl
       case hoth => sim_oth
       case htab =>
         intro hp; left
         first | exact syncDecide_wfu hp | exact trySyncDecide_wfu hp | exact desyncPush_wfu hp | exact claim_wfu hp | exact nextToRun_wfu hp | exact hp
       case hmine => park_mine)
    | (refine ParkInv.step' (a := a) h (by sim_oth) ?_ (by park_mine)
       intro q' hp
       left
       simp only [qSt_goto] at hp
       have hp' : (State.dequeue s _ a).1.qSt q' = some .waitingForUnpark := hp
       rw [qSt_dequeue] at hp'
       exact hp')
    | skip)
  done

end Desync
