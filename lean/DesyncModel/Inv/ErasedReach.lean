/-
The erased-job invariant holds in every reachable state; the protocol statement of C14.
-/
import DesyncModel.Inv.ErasedStep
import DesyncModel.Inv.JobReach

namespace Desync
open Gen

theorem erasedInv_setChild {s : State} (h : ErasedInv s) (p : Nat) (c : Option Nat) :
    ErasedInv (match s.acts[p]? with | some pv => s.setAct p { pv with child := c } | none => s) := by
  split
  · next pv hpv =>
    have hpc : ∀ b, (s.setAct p { pv with child := c }).pcAt b = s.pcAt b := fun b => pcAt_setAct_samepc _ p pv { pv with child := c } hpv rfl b
    have hlen : (s.setAct p { pv with child := c }).acts.length = s.acts.length := by simp [State.setAct]
    exact ErasedInvF.congr h (fun _ => rfl) (fun _ => rfl) (fun b => by rw [hpc]) (fun b => by rw [hpc]) (fun _ => rfl) hlen
  · exact h

theorem erasedInv_addAct {s s0 : State} (h : ErasedInv s) (t : Nat) (parent : Option Nat) (pc : Pc) (once : Bool)
    (hacts : s0.acts = s.acts) (hj : s0.jobs = s.jobs) (hr : s0.ready = s.ready) : ErasedInv (addAct s0 t parent pc once).1 := by
  have h0 : ErasedInv s0 := ErasedInv.congr h hacts hj hr
  have h1 : ErasedInv ({ s0 with acts := s0.acts ++ [({ thread := t, pc := pc, parent := parent, child := none, woken := false, result := none, mode := .await, once := once } : Act)], nextOp := s0.nextOp + 1 } : State) :=
    ErasedInv.append_act h0 rfl rfl rfl
  unfold addAct
  cases parent with
  | none => exact h1
  | some p =>
    simp only
    have := erasedInv_setChild h1 p (some s0.acts.length)
    split
    · next pv hpv => simp only [hpv] at this; exact this
    · exact h1

theorem erasedInv_invoke {s s' : State} {t a : Nat} {parent : Option Nat} {c : Call} (h : ErasedInv s)
    (hs : invoke s t parent c = some (s', a)) : ErasedInv s' := by
  unfold invoke at hs
  cases c <;> simp only at hs
  all_goals (repeat' split at hs)
  all_goals (try (simp at hs; done))
  all_goals (
    have hs' := congrArg Prod.fst (Option.some.inj hs)
    simp only at hs'
    subst hs'
    refine erasedInv_addAct h t parent _ _ ?_ ?_ ?_ <;>
      (first | rfl | (split <;> (try split) <;> rfl)))

theorem erasedInv_bodyEnd {s s' : State} {a : Nat} {o : Obs} (h : ErasedInv s) (hs : bodyEnd s a = some (s', o)) : ErasedInv s' := by
  unfold bodyEnd at hs
  split at hs
  · next act ha =>
    split at hs
    · simp at hs
    · split at hs
      · next op k hpc =>
        obtain ⟨rfl, _⟩ := Prod.mk.inj (Option.some.inj hs)
        exact ErasedInv.frame h (fun _ => rfl) (fun _ => rfl) (fun _ hd => hd) (fun _ => rfl) rfl (by rw [pcAt_of ha, hpc]; rfl) (Or.inl (by rw [pcAt_of ha, hpc]; rfl))
      · simp at hs
  · simp at hs

theorem erasedInv_spuriousUnpark {s s' : State} {a : Nat} {o : Obs} (h : ErasedInv s) (hs : spuriousUnpark s a = some (s', o)) : ErasedInv s' := by
  unfold spuriousUnpark at hs
  split at hs
  · next act ha =>
    split at hs
    · next q j k hpc =>
      obtain ⟨rfl, _⟩ := Prod.mk.inj (Option.some.inj hs)
      exact ErasedInv.frame h (fun _ => rfl) (fun _ => rfl) (fun _ hd => hd) (fun _ => rfl) rfl (by rw [pcAt_of ha, hpc]; rfl) (Or.inl (by rw [pcAt_of ha, hpc]; rfl))
    · simp at hs
  · simp at hs

theorem erasedInv_spuriousPoll {s s' : State} {a : Nat} (h : ErasedInv s) (hs : spuriousPoll s a = some s') : ErasedInv s' := by
  unfold spuriousPoll at hs
  split at hs
  · next act ha =>
    split at hs
    · next f hpc =>
      cases Option.some.inj hs
      exact ErasedInv.frame h (fun _ => rfl) (fun _ => rfl) (fun _ hd => hd) (fun _ => rfl) rfl (by rw [pcAt_of ha, hpc]; rfl) (Or.inr rfl)
    · next u hpc =>
      cases Option.some.inj hs
      exact ErasedInv.frame h (fun _ => rfl) (fun _ => rfl) (fun _ hd => hd) (fun _ => rfl) rfl (by rw [pcAt_of ha, hpc]; rfl) (Or.inr rfl)
    · simp at hs
  · simp at hs

theorem erasedInv_ret {s s' : State} {a r : Nat} (h : ErasedInv s) (hs : retStep s a = some (s', r)) : ErasedInv s' := by
  unfold retStep at hs
  split at hs
  · next act ha =>
    split at hs
    · next hpc =>
      obtain ⟨rfl, _⟩ := Prod.mk.inj (Option.some.inj hs)
      have h1 : ErasedInv (s.setAct a { act with pc := .dead }) :=
        ErasedInv.frame_setAct h (fun _ => rfl) (fun _ => rfl) (fun _ hd => hd) (fun _ => rfl) rfl (by rw [pcAt_of ha, hpc]; rfl) (Or.inr rfl)
      split
      · next p hp => exact erasedInv_setChild h1 p none
      · exact h1
    · simp at hs
  · simp at hs

/-- **The erased-job invariant holds in every reachable state.** -/
theorem erasedInv_reachable {s : State} (hr : Reachable s) : ErasedInv s := by
  induction hr with
  | init nq ng max => exact erasedInv_init nq ng max
  | initP ps ng max => exact erasedInv_initP ps ng max
  | step l hprev hstep ih =>
    obtain ⟨hw, hf⟩ := fullInv_reachable hprev
    cases l with
    | act a =>
      simp only [next, Option.map_eq_some_iff] at hstep
      obtain ⟨⟨s1, o⟩, hs, rfl⟩ := hstep
      exact erasedInv_stepAct hw hf.job ih hs
    | invoke t parent c =>
      simp only [next] at hstep
      split at hstep
      · simp only [Option.map_eq_some_iff] at hstep
        obtain ⟨⟨s1, a⟩, hs, rfl⟩ := hstep
        exact erasedInv_invoke ih hs
      · simp at hstep
    | bodyEnd a =>
      simp only [next, Option.map_eq_some_iff] at hstep
      obtain ⟨⟨s1, o⟩, hs, rfl⟩ := hstep
      exact erasedInv_bodyEnd ih hs
    | ret a =>
      simp only [next, Option.map_eq_some_iff] at hstep
      obtain ⟨⟨s1, r⟩, hs, rfl⟩ := hstep
      exact erasedInv_ret ih hs
    | spuriousUnpark a =>
      simp only [next, Option.map_eq_some_iff] at hstep
      obtain ⟨⟨s1, o⟩, hs, rfl⟩ := hstep
      exact erasedInv_spuriousUnpark ih hs
    | spuriousPoll a =>
      simp only [next] at hstep
      exact erasedInv_spuriousPoll ih hstep

/-- **C14, protocol level**: a lifetime-erased job — a closure holding references into the stack frame of the `sync`
call that created it — that has not been dropped yet has a live owner: the activity of that call exists and its program
counter is inside the wait loop of sync_drain / sync_background, waiting for exactly this job.  In particular the call has
neither returned nor finished. -/
theorem erased_job_owner_waits {s : State} (hr : Reachable s) {j : Nat} {b : Job} {owner : Nat} {body : Body}
    (hb : s.jobs[j]? = some b) (hk : b.kind = .erasedDrain owner body ∨ b.kind = .erasedBg owner body) (hnd : b.ph ≠ .done) :
    (s.pcAt owner).awaited = some j := by
  have h := erasedInv_reachable hr
  have hd : s.jobD j = false := by
    rw [jobD_of hb]; cases hp : b.ph <;> simp_all
  rcases hk with hk | hk
  · exact h.waits j owner false (by rw [jobK_of hb]; simp [kOf, hk]) hd
  · exact h.waits j owner true (by rw [jobK_of hb]; simp [kOf, hk]) hd

end Desync
