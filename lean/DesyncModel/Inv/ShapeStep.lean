/-
`ShapeInv` is preserved by every internal step (all program counters).
-/
import DesyncModel.Inv.Shape

namespace Desync
open Gen

@[simp] theorem doubles_newJob (s : State) (q : Nat) (k : JobKind) : (s.newJob q k).1.doubles = s.doubles := rfl
@[simp] theorem doubles_dequeue (s : State) (q a : Nat) : (s.dequeue q a).1.doubles = s.doubles := by
  unfold State.dequeue
  split
  · split
    · split
      · simp
      · rfl
    · rfl
  · rfl

theorem sh_lwCs {s s' : State} {a : Nat} {o : Obs} (h : ShapeInv s)
    (act : Act) (ha : s.acts[a]? = some act) (hc : act.child = none) (l : Nat) (k : Pc)
    (hpc : act.pc = .lwCs l k) (hs : stepAct s a = some (s', o)) : ShapeInv s' := by
  have hw := h.ws a
  rw [pcAt_of ha, hpc] at hw
  wk_open
  split at hs
  · simp at hs
  · next st w hl =>
    try dsimp only at hs
    repeat' split at hs
    all_goals (try (simp at hs; done))
    all_goals (simp only [Option.some.injEq, Prod.mk.injEq] at hs; obtain ⟨rfl, _⟩ := hs)
    all_goals (
      refine ShapeInv.gotoGen h (fun b => rfl) h.dbl ?_ ?_
      · refine LatOk.set h.lat l _ _ ?_
        intro w1 hw1
        first
          | (cases hw1; done)
          | (subst hw1; exact h.lat l st w1 hl)
      · simpa [Pc.ws] using hw)

theorem sh_dwCs {s s' : State} {a : Nat} {o : Obs} (h : ShapeInv s)
    (act : Act) (ha : s.acts[a]? = some act) (hc : act.child = none) (d : Nat) (k : Pc)
    (hpc : act.pc = .dwCs d k) (hs : stepAct s a = some (s', o)) : ShapeInv s' := by
  have hw := h.ws a
  rw [pcAt_of ha, hpc] at hw
  wk_open
  split at hs
  · simp at hs
  · try dsimp only at hs
    repeat' split at hs
    all_goals (try (simp at hs; done))
    all_goals (simp only [Option.some.injEq, Prod.mk.injEq] at hs; obtain ⟨rfl, _⟩ := hs)
    all_goals (
      refine ShapeInv.gotoGen h (fun b => rfl) (DblOk.set_none h.dbl d) h.lat ?_
      simpa [Pc.ws] using hw)

theorem sh_dqWakeWith {s s' : State} {a : Nat} {o : Obs} (h : ShapeInv s)
    (act : Act) (ha : s.acts[a]? = some act) (hc : act.child = none) (f l : Nat) (w : Waker) (k : Pc)
    (hpc : act.pc = .dqWakeWith f l w k) (hs : stepAct s a = some (s', o)) : ShapeInv s' := by
  have hw := h.ws a
  rw [pcAt_of ha, hpc] at hw
  simp only [Pc.ws, Bool.and_eq_true] at hw
  wk_open
  split at hs
  · simp at hs
  · try dsimp only at hs
    split at hs
    all_goals (simp only [Option.some.injEq, Prod.mk.injEq] at hs; obtain ⟨rfl, _⟩ := hs)
    · refine ShapeInv.gotoGen h (fun b => rfl) h.dbl (LatOk.set h.lat l _ _ (fun w1 hw1 => by cases hw1)) ?_
      simpa [Pc.ws] using hw.2
    · refine ShapeInv.gotoGen h (fun b => rfl) h.dbl (LatOk.set h.lat l _ _ (fun w1 hw1 => by cases hw1; exact hw.1)) hw.2

theorem sh_dqDequeue {s s' : State} {a : Nat} {o : Obs} (h : ShapeInv s)
    (act : Act) (ha : s.acts[a]? = some act) (hc : act.child = none) (f q : Nat)
    (hpc : act.pc = .dqDequeue f q) (hs : stepAct s a = some (s', o)) : ShapeInv s' := by
  wk_open
  try dsimp only at hs
  split at hs
  · wk_fin
    refine ShapeInv.gotoGen h (fun b => by simp [State.pcAt, dequeue_acts]) (by simpa using h.dbl) ?_ (by simp [Pc.ws])
    have := LatOk.append h.lat
    simpa using this
  · wk_fin
    exact ShapeInv.goto h (fun b => by simp [State.pcAt, dequeue_acts]) (by simp) (by simp) (by simp [Pc.ws])

theorem sh_dqSetWfp {s s' : State} {a : Nat} {o : Obs} (h : ShapeInv s)
    (act : Act) (ha : s.acts[a]? = some act) (hc : act.child = none) (f l q : Nat)
    (hpc : act.pc = .dqSetWfp f l q) (hs : stepAct s a = some (s', o)) : ShapeInv s' := by
  wk_open
  try dsimp only at hs
  wk_fin
  refine ShapeInv.gotoGen h (fun b => by simp [State.pcAt]) ?_ (by simpa using h.lat) (by simp [Pc.ws, Waker.lvl1])
  have := DblOk.append h.dbl q act.thread
  simpa using this

theorem ws_pcAt_append {s X : State} {n : Act} (h : ∀ b, (s.pcAt b).ws = true) (hacts : X.acts = s.acts ++ [n]) (hn : n.pc.ws = true) :
    ∀ b, (X.pcAt b).ws = true := by
  intro b
  have hb := h b
  simp only [State.pcAt, hacts] at hb ⊢
  by_cases hlt : b < s.acts.length
  · rw [List.getElem?_append_left hlt]; exact hb
  · by_cases hbe : b = s.acts.length
    · subst hbe; simp [hn]
    · have : (s.acts ++ [n])[b]? = none := by simp; omega
      rw [this]; rfl

theorem sh_stSpawn {s s' : State} {a : Nat} {o : Obs} (h : ShapeInv s) (act : Act) (ha : s.acts[a]? = some act) (hc : act.child = none) (m : Nat) (k : Pc)
    (hpc : act.pc = .stSpawn m k) (hs : stepAct s a = some (s', o)) : ShapeInv s' := by
  have hlt : a < s.acts.length := lt_of_getElem?_some ha
  have hw := h.ws a
  rw [pcAt_of ha, hpc] at hw
  unfold stepAct at hs
  simp only [ha, hc, hpc, Option.isSome_none, Bool.false_eq_true, ↓reduceIte] at hs
  split at hs
  · simp at hs
  · split at hs
    · simp only [Option.some.injEq, Prod.mk.injEq] at hs; obtain ⟨rfl, _⟩ := hs
      refine ⟨?_, ?_, ?_⟩
      · intro b
        rw [pcAt_goto]
        split
        · simpa [Pc.ws] using hw
        · exact ws_pcAt_append h.ws rfl (by simp [Pc.ws]) b
      · rw [doubles_goto]; exact h.dbl
      · rw [latches_goto]; exact h.lat
    · simp only [Option.some.injEq, Prod.mk.injEq] at hs; obtain ⟨rfl, _⟩ := hs
      exact ShapeInv.goto h (fun b => rfl) rfl rfl (by simpa [Pc.ws] using hw)

set_option hygiene false in
macro "sh_side" : tactic => `(tactic| first
  | (intro b; simp only [pcAt_setQ, pcAt_setJob, pcAt_setHolder, pcAt_setWoken, pcAt_notify, pcAt_setPThr, pcAt_setFut, pcAt_setGate,
                         pcAt_takeReady, pcAt_dropReady, pcAt_setJobPh, pcAt_pushFront, pcAt_pushBack, pcAt_setQState, pcAt_dequeue, pcAt_setSf, pcAt_newJob]; first | done | rfl)
  | (intro b; first | rfl | (simp [State.pcAt, dequeue_acts]; done))
  | rfl
  | (simp only [latches_goto, latches_setAct, latches_setQ, latches_setJob, latches_setHolder, latches_setPThr, latches_setFut, latches_setGate,
          latches_setSf, latches_takeReady, latches_dropReady, latches_newJob, latches_setJobPh, latches_pushFront, latches_pushBack,
          latches_setQState, latches_setWoken, latches_notify, latches_dequeue,
          doubles_goto, doubles_setAct, doubles_setQ, doubles_setJob, doubles_setHolder, doubles_setPThr, doubles_setFut, doubles_setGate,
          doubles_setSf, doubles_takeReady, doubles_dropReady, doubles_newJob, doubles_setJobPh, doubles_pushFront, doubles_pushBack,
          doubles_setQState, doubles_setWoken, doubles_notify, doubles_dequeue]; first | done | rfl)
  | ((try simp only [Pc.ws, ws_ctxReady, ws_ctxPending, Bool.and_eq_true] at hw);
     first
     | (simp only [Pc.ws, ws_ctxReady, ws_ctxPending]; done)
     | ((try simp only [Pc.ws, ws_ctxReady, ws_ctxPending, Bool.and_eq_true, Waker.lvl1]);
        first | exact hw | trivial | (split <;> first | trivial | exact hw | (simp_all; done)) | (simp_all; done)))
  | (cases ‹Ctx› <;> simp_all [Pc.ws, ctxReady, ctxPending, Waker.lvl1]))

set_option maxHeartbeats 4000000 in
set_option maxRecDepth 8000 in
theorem shapeInv_stepAct {s s' : State} {a : Nat} {o : Obs} (h : ShapeInv s) (hs : stepAct s a = some (s', o)) : ShapeInv s' := by
  have hs0 := hs
  unfold stepAct at hs
  split at hs
  · simp at hs
  next act ha =>
  split at hs
  · simp at hs
  next hchild =>
  have hlt : a < s.acts.length := lt_of_getElem?_some ha
  have hpca := pcAt_of ha
  have hw := h.ws a
  rw [hpca] at hw
  have hc : act.child = none := by
    cases hcc : act.child <;> simp_all
  split at hs
  all_goals (try (simp at hs; done))
  all_goals (try (first
      | exact sh_stSpawn h act ha hc _ _ (by assumption) hs0
      | exact sh_lwCs h act ha hc _ _ (by assumption) hs0
      | exact sh_dwCs h act ha hc _ _ (by assumption) hs0
      | exact sh_dqWakeWith h act ha hc _ _ _ _ (by assumption) hs0
      | exact sh_dqDequeue h act ha hc _ _ (by assumption) hs0
      | exact sh_dqSetWfp h act ha hc _ _ _ (by assumption) hs0))
  all_goals (try dsimp only at hs)
  all_goals (repeat' split at hs)
  all_goals (try (simp at hs; done))
  all_goals (try (simp only [Option.some.injEq, Prod.mk.injEq] at hs; obtain ⟨rfl, _⟩ := hs))
  all_goals (try (rw [‹act.pc = _›] at hw))
  all_goals (first
      | ((refine ShapeInv.goto h ?_ ?_ ?_ ?_) <;> sh_side)
      | ((refine ShapeInv.setAct h ?_ ?_ ?_ ?_) <;> sh_side)
      | exact ShapeInv.same (s := s.goto a .ret) (ShapeInv.goto h (fun b => rfl) rfl rfl (by simp [Pc.ws])) (fun b => by simp) (by simp) (by simp)
      | skip)

end Desync
