import DesyncModel.Inv.Holder

namespace Desync
open Gen

theorem hpc_goto {s X : State} {a : Nat} {pc' : Pc}
    (hX : ∀ b q, (X.pcAt b).holds q = (s.pcAt b).holds q) (ha : a < X.acts.length) :
    ∀ b q, ((X.goto a pc').pcAt b).holds q = if a = b then pc'.holds q else (s.pcAt b).holds q := by
  intro b q
  rw [pcAt_goto]
  by_cases hab : a = b
  · subst hab; simp [ha]
  · simp [hab, hX]

theorem pcAt_of {s : State} {a : Nat} {act : Act} (ha : s.acts[a]? = some act) : s.pcAt a = act.pc := by
  simp [State.pcAt, ha]

/-- table facts used below: a table applied by a non-holder never takes a queue out of the held states -/
theorem wakeQueue_held (st : QState) : st.held = true → (wakeQueue st).1.held = true := by
  cases st <;> simp [wakeQueue, QState.held]
theorem wakeThread_held (st : QState) : st.held = true → (wakeThread st).held = true := by
  cases st <;> simp [wakeThread, QState.held]
theorem desyncPush_held (st : QState) : st.held = true → (desyncPush st).1.held = true := by
  cases st <;> simp [desyncPush, QState.held]
theorem futureDrop_held (self : Nat) (st : QState) : st.held = true → (futureDropDecide self st).1.held = true := by
  cases st <;> simp [futureDropDecide, QState.held]
theorem reschedule_held (st : QState) (e : Bool) : st.held = true → (reschedule st e).1.held = true := by
  cases st <;> cases e <;> simp [reschedule, QState.held]

end Desync

namespace Desync
open Gen

theorem StatesOk.setQ {s X : State} {q : Nat} {v v' : JobQ} (hq : s.qs[q]? = some v) (hX : X.qs = s.qs.set q v')
    (h : v.state.held = true → v'.state.held = true) : StatesOk s X := by
  intro q' w hw
  rw [hX, List.getElem?_set] at hw
  by_cases hqq : q = q'
  · subst hqq
    have hlt : q < s.qs.length := lt_of_getElem?_some hq
    simp only [↓reduceIte, hlt] at hw
    cases hw
    exact ⟨v, hq, h⟩
  · simp only [hqq, ↓reduceIte] at hw
    exact ⟨w, hw, id⟩

@[simp] theorem pcAt_setWoken (s : State) (a : Nat) (b : Bool) (c : Nat) : (s.setWoken a b).pcAt c = s.pcAt c := by
  unfold State.setWoken
  split
  · next v hv =>
    rw [pcAt_setAct]
    by_cases hac : a = c
    · subst hac; simp [State.pcAt, hv]
    · simp [hac]
  · rfl

@[simp] theorem pcAt_notify (s : State) (w c : Nat) : (s.notify w).pcAt c = s.pcAt c := by
  unfold State.notify
  split
  · next v hv =>
    split
    · rw [pcAt_setAct]
      by_cases hwc : w = c
      · subst hwc; simp [State.pcAt, hv]
      · simp [hwc]
    · rfl
  · rfl

@[simp] theorem pcAt_setPThr (s : State) (p : Nat) (v : PThr) (c : Nat) : (s.setPThr p v).pcAt c = s.pcAt c := rfl
@[simp] theorem pcAt_setFut (s : State) (f : Nat) (v : Fut) (c : Nat) : (s.setFut f v).pcAt c = s.pcAt c := rfl
@[simp] theorem pcAt_setGate (s : State) (g : Nat) (v : Gate) (c : Nat) : (s.setGate g v).pcAt c = s.pcAt c := rfl
@[simp] theorem pcAt_takeReady (s : State) (w a c : Nat) : (s.takeReady w a).pcAt c = s.pcAt c := rfl
@[simp] theorem pcAt_dropReady (s : State) (w c : Nat) : (s.dropReady w).pcAt c = s.pcAt c := rfl
@[simp] theorem pcAt_setJobPh (s : State) (j : Nat) (ph : Phase) (c : Nat) : (s.setJobPh j ph).pcAt c = s.pcAt c := by
  simp [State.pcAt]
@[simp] theorem pcAt_pushFront (s : State) (q j c : Nat) : (s.pushFront q j).pcAt c = s.pcAt c := by simp [State.pcAt]
@[simp] theorem pcAt_pushBack (s : State) (q j c : Nat) : (s.pushBack q j).pcAt c = s.pcAt c := by simp [State.pcAt]
@[simp] theorem pcAt_setQState (s : State) (q : Nat) (st : QState) (c : Nat) : (s.setQState q st).pcAt c = s.pcAt c := by simp [State.pcAt]

@[simp] theorem acts_length_setWoken (s : State) (a : Nat) (b : Bool) : (s.setWoken a b).acts.length = s.acts.length := by
  unfold State.setWoken; split <;> simp [State.setAct]
@[simp] theorem acts_length_notify (s : State) (w : Nat) : (s.notify w).acts.length = s.acts.length := by
  unfold State.notify; split <;> (try split) <;> simp [State.setAct]

end Desync

namespace Desync
open Gen

theorem goto_eq_setAct {X : State} {a : Nat} {act : Act} (pc : Pc) (h : X.acts[a]? = some act) :
    X.goto a pc = X.setAct a { act with pc := pc } := by
  unfold State.goto; rw [h]

theorem hpc_setAct {s X : State} {a : Nat} {v : Act}
    (hX : ∀ b q, (X.pcAt b).holds q = (s.pcAt b).holds q) (ha : a < X.acts.length) :
    ∀ b q, ((X.setAct a v).pcAt b).holds q = if a = b then v.pc.holds q else (s.pcAt b).holds q := by
  intro b q
  rw [pcAt_setAct]
  by_cases hab : a = b
  · subst hab; simp [ha]
  · simp [hab, hX]

/-- which queue a job-running context owns -/
def ctxHolds (k : Pc) (q : Nat) : Ctx → Bool
  | .caller _ => k.holds q
  | .pool _ q' => q' == q
  | .task _ _ q' => q' == q

@[simp] theorem holds_ctxPending (j : Nat) (k : Pc) (c : Ctx) (q : Nat) : (ctxPending j k c).holds q = ctxHolds k q c := by
  cases c <;> simp [ctxPending, Pc.holds, ctxHolds]

@[simp] theorem holds_ctxReady (k : Pc) (c : Ctx) (q : Nat) : (ctxReady k c).holds q = ctxHolds k q c := by
  cases c <;> simp [ctxReady, Pc.holds, ctxHolds]

theorem holds_jobStart (j : Nat) (c : Ctx) (k : Pc) (q : Nat) : (Pc.jobStart j c k).holds q = ctxHolds k q c := by
  cases c <;> simp [Pc.holds, ctxHolds]
theorem holds_jobAwait (j : Nat) (c : Ctx) (k : Pc) (q : Nat) : (Pc.jobAwait j c k).holds q = ctxHolds k q c := by
  cases c <;> simp [Pc.holds, ctxHolds]
theorem holds_jobBodyDone (j : Nat) (c : Ctx) (k : Pc) (q : Nat) : (Pc.jobBodyDone j c k).holds q = ctxHolds k q c := by
  cases c <;> simp [Pc.holds, ctxHolds]
theorem holds_jobEnd (j : Nat) (c : Ctx) (k : Pc) (q : Nat) : (Pc.jobEnd j c k).holds q = ctxHolds k q c := by
  cases c <;> simp [Pc.holds, ctxHolds]
theorem holds_jobSignal (j : Nat) (c : Ctx) (k : Pc) (q : Nat) : (Pc.jobSignal j c k).holds q = ctxHolds k q c := by
  cases c <;> simp [Pc.holds, ctxHolds]
theorem holds_jobSigDrop (j : Nat) (c : Ctx) (k : Pc) (q : Nat) : (Pc.jobSigDrop j c k).holds q = ctxHolds k q c := by
  cases c <;> simp [Pc.holds, ctxHolds]
theorem holds_jobDrop (j : Nat) (c : Ctx) (k : Pc) (q : Nat) : (Pc.jobDrop j c k).holds q = ctxHolds k q c := by
  cases c <;> simp [Pc.holds, ctxHolds]
theorem holds_jobDropNotify (j : Nat) (c : Ctx) (k : Pc) (q : Nat) : (Pc.jobDropNotify j c k).holds q = ctxHolds k q c := by
  cases c <;> simp [Pc.holds, ctxHolds]
@[simp] theorem ctxHolds_caller (k : Pc) (q q' : Nat) : ctxHolds k q (.caller q') = k.holds q := rfl
@[simp] theorem ctxHolds_pool (k : Pc) (q p q' : Nat) : ctxHolds k q (.pool p q') = (q' == q) := rfl
@[simp] theorem ctxHolds_task (k : Pc) (q f l q' : Nat) : ctxHolds k q (.task f l q') = (q' == q) := rfl

/-! #### `dequeue` -/
theorem dequeue_acts (s : State) (q a : Nat) : (s.dequeue q a).1.acts = s.acts := by
  unfold State.dequeue
  split
  · split
    · split <;> simp
    · rfl
  · rfl

theorem dequeue_holder (s : State) (q a : Nat) : (s.dequeue q a).1.holder = s.holder := by
  unfold State.dequeue
  split
  · split
    · split <;> simp
    · rfl
  · rfl

theorem dequeue_qs_length (s : State) (q a : Nat) : (s.dequeue q a).1.qs.length = s.qs.length := by
  unfold State.dequeue
  split
  · split
    · split <;> simp [State.setQ]
    · rfl
  · rfl

theorem dequeue_statesOk (s : State) (q a : Nat) : StatesOk s (s.dequeue q a).1 := by
  unfold State.dequeue
  split
  · next v hv =>
    split
    · split
      · next j rest hj =>
        exact StatesOk.setQ (v := v) (v' := { v with jobs := rest }) hv (by simp [State.setQ]) id
      · exact StatesOk.refl' _ _ rfl
    · exact StatesOk.refl' _ _ rfl
  · exact StatesOk.refl' _ _ rfl

@[simp] theorem pcAt_dequeue (s : State) (q a c : Nat) : (s.dequeue q a).1.pcAt c = s.pcAt c := by
  simp [State.pcAt, dequeue_acts]

end Desync

namespace Desync
open Gen

/-! #### tables preserve "held" when applied by somebody who is not the holder -/
theorem syncDecide_held (st : QState) (e : Bool) : st.held = true → (syncDecide st e).1.held = true := by
  cases st <;> cases e <;> simp [syncDecide, QState.held]
theorem trySync_held (st : QState) (e : Bool) : st.held = true → (trySyncDecide st e).1.held = true := by
  cases st <;> cases e <;> simp [trySyncDecide, QState.held]
theorem claim_held (st : QState) : st.held = true → (claim st).1.held = true := by
  cases st <;> simp [claim, QState.held]
theorem nextToRun_held (st : QState) : st.held = true → (nextToRun st).1.held = true := by
  cases st <;> simp [nextToRun, QState.held]
theorem pollDecide_held (self : Nat) (st : QState) : st.held = true → (pollDecide self st).1.held = true := by
  cases st <;> simp [pollDecide, QState.held]
theorem runOnePending_held (st : QState) : st.held = true → (runOnePending st).1.held = true := by
  cases st <;> simp [runOnePending, QState.held]
theorem drainExit_held (st : QState) (e : Bool) : (drainExit st e).2 = false → st.held = true → (drainExit st e).1.held = true := by
  cases st <;> cases e <;> simp [drainExit, QState.held]
theorem drainPending_held (st : QState) : (drainPending st).2 = false → st.held = true → (drainPending st).1.held = true := by
  cases st <;> simp [drainPending, QState.held]

/-- a queue whose state is not one of the held states has no holder -/
theorem HolderInv.free {s : State} (h : HolderInv s) {q : Nat} {v : JobQ} (hq : s.qs[q]? = some v)
    (hst : v.state.held = false) : s.holder[q]? = some none := by
  have hlt : q < s.holder.length := by rw [h.len]; exact lt_of_getElem?_some hq
  have hx : s.holder[q]? = some s.holder[q] := List.getElem?_eq_getElem hlt
  cases hv : s.holder[q] with
  | none => rw [hx, hv]
  | some b =>
    have := h.held b q v (by rw [hx, hv]) hq
    rw [hst] at this; cases this

theorem HolderInv.mine {s : State} (h : HolderInv s) {a q : Nat} {act : Act} (ha : s.acts[a]? = some act)
    (hh : act.pc.holds q = true) : s.holder[q]? = some (some a) ∧ ∃ v, s.qs[q]? = some v := by
  have h1 := (h.iff a q).mp (by rw [pcAt_of ha]; exact hh)
  refine ⟨h1, ?_⟩
  have hlt : q < s.qs.length := by rw [← h.len]; exact lt_of_getElem?_some h1
  exact ⟨s.qs[q], List.getElem?_eq_getElem hlt⟩

/-- activity `a`, which held nothing, takes the run right of `q0` (a table granted it from a non-held state) -/
theorem HolderInv.acquire {s X : State} {a q0 : Nat} {act v' : Act} {w w' : JobQ} (h : HolderInv s)
    (ha : s.acts[a]? = some act) (hq : s.qs[q0]? = some w) (hfree : w.state.held = false)
    (hold : ∀ q, act.pc.holds q = false) (hnew : ∀ q, v'.pc.holds q = (q0 == q))
    (hX : ∀ b q, (X.pcAt b).holds q = (s.pcAt b).holds q) (hXlen : a < X.acts.length)
    (hXho : X.holder = s.holder.set q0 (some a)) (hXqs : X.qs = s.qs.set q0 w') (hheld : w'.state.held = true) :
    HolderInv (X.setAct a v') := by
  have hq0 : q0 < s.qs.length := lt_of_getElem?_some hq
  refine HolderInv.update (pc' := v'.pc) h q0 (some a) (hpc_setAct hX hXlen) (by simpa using hXho) (by simp [hXqs]) hq0
    (Or.inr rfl) ?_ (Or.inl (h.free hq hfree)) ?_ ?_
  · intro q
    rw [hnew, pcAt_of ha, hold]
    by_cases hqq : q = q0
    · subst hqq; simp
    · simp [hqq, Ne.symm hqq]
  · intro _ u hu
    simp only [qs_setAct, hXqs, List.getElem?_set, ↓reduceIte, hq0] at hu
    cases hu; exact hheld
  · intro q u hne hu
    simp only [qs_setAct, hXqs, List.getElem?_set, Ne.symm hne, ↓reduceIte] at hu
    exact ⟨u, hu, id⟩

/-- activity `a`, which held exactly `q0`, gives the run right up (the queue's new state is arbitrary) -/
theorem HolderInv.release {s X : State} {a q0 : Nat} {act v' : Act} {w' : JobQ} (h : HolderInv s)
    (ha : s.acts[a]? = some act) (hold : ∀ q, act.pc.holds q = (q0 == q)) (hnew : ∀ q, v'.pc.holds q = false)
    (hX : ∀ b q, (X.pcAt b).holds q = (s.pcAt b).holds q) (hXlen : a < X.acts.length)
    (hXho : X.holder = s.holder.set q0 none) (hXqs : X.qs = s.qs.set q0 w') :
    HolderInv (X.setAct a v') := by
  obtain ⟨hmine, w, hw⟩ := h.mine (q := q0) ha (by rw [hold]; simp)
  have hq0 : q0 < s.qs.length := lt_of_getElem?_some hw
  refine HolderInv.update (pc' := v'.pc) h q0 none (hpc_setAct hX hXlen) (by simpa using hXho) (by simp [hXqs]) hq0
    (Or.inl rfl) ?_ (Or.inr hmine) ?_ ?_
  · intro q
    rw [hnew, pcAt_of ha, hold]
    by_cases hqq : q = q0
    · subst hqq; simp
    · simp [hqq, Ne.symm hqq]
  · intro hc; cases hc
  · intro q u hne hu
    simp only [qs_setAct, hXqs, List.getElem?_set, Ne.symm hne, ↓reduceIte] at hu
    exact ⟨u, hu, id⟩

end Desync

namespace Desync
open Gen

/-! #### facts about the tables at the points where the run right is granted -/
theorem syncDecide_imm (st : QState) (e : Bool) (h : (syncDecide st e).2 = .immediate) : st.held = false ∧ (syncDecide st e).1.held = true := by
  cases st <;> cases e <;> simp_all [syncDecide, QState.held]
theorem syncDecide_drain (st : QState) (e : Bool) (h : (syncDecide st e).2 = .drain) : st.held = false ∧ (syncDecide st e).1.held = true := by
  cases st <;> cases e <;> simp_all [syncDecide, QState.held]
theorem trySync_imm (st : QState) (e : Bool) (h : (trySyncDecide st e).2 = .immediate) : st.held = false ∧ (trySyncDecide st e).1.held = true := by
  cases st <;> cases e <;> simp_all [trySyncDecide, QState.held]
theorem claim_true (st : QState) (h : (claim st).2 = true) : st.held = false ∧ (claim st).1.held = true := by
  cases st <;> simp_all [claim, QState.held]
theorem nextToRun_true (st : QState) (h : (nextToRun st).2 = true) : st.held = false ∧ (nextToRun st).1.held = true := by
  cases st <;> simp_all [nextToRun, QState.held]
theorem pollDecide_drain (self : Nat) (st : QState) (h : (pollDecide self st).2.1 = .drain) : st.held = false ∧ (pollDecide self st).1.held = true := by
  cases st <;> simp_all [pollDecide, QState.held]
  split at h <;> simp_all

end Desync

namespace Desync
open Gen

theorem StatesOk.of_qs_eq {s X Y : State} (h : X.qs = Y.qs) (hy : StatesOk s Y) : StatesOk s X := by
  intro q v hv; rw [h] at hv; exact hy q v hv

/-- `setQState` on the list of queues -/
def setStateList (l : List JobQ) (q : Nat) (st : QState) : List JobQ :=
  match l[q]? with
  | some v => l.set q { v with state := st }
  | none => l

theorem qs_setQState' (s : State) (q : Nat) (st : QState) : (s.setQState q st).qs = setStateList s.qs q st := by
  unfold State.setQState setStateList; split <;> simp_all [State.setQ]

theorem pushFront_statesOk (s : State) (q j : Nat) : StatesOk s (s.pushFront q j) := by
  unfold State.pushFront
  split
  · next v hv => exact StatesOk.setQ (v := v) (v' := { v with jobs := j :: v.jobs }) hv rfl id
  · exact StatesOk.refl' _ _ rfl

theorem pushBack_statesOk (s : State) (q j : Nat) : StatesOk s (s.pushBack q j) := by
  unfold State.pushBack
  split
  · next v hv => exact StatesOk.setQ (v := v) (v' := { v with jobs := v.jobs ++ [j] }) hv rfl id
  · exact StatesOk.refl' _ _ rfl

@[simp] theorem qs_length_pushFront (s : State) (q j : Nat) : (s.pushFront q j).qs.length = s.qs.length := by
  unfold State.pushFront; split <;> simp [State.setQ]
@[simp] theorem qs_length_pushBack (s : State) (q j : Nat) : (s.pushBack q j).qs.length = s.qs.length := by
  unfold State.pushBack; split <;> simp [State.setQ]
@[simp] theorem qs_length_setQState (s : State) (q : Nat) (st : QState) : (s.setQState q st).qs.length = s.qs.length := by
  unfold State.setQState; split <;> simp [State.setQ]

theorem holds_pcAt_append {s X : State} {n : Act} (hacts : X.acts = s.acts ++ [n]) (hn : ∀ q, n.pc.holds q = false) :
    ∀ b q, (X.pcAt b).holds q = (s.pcAt b).holds q := by
  intro b q
  simp only [State.pcAt, hacts]
  by_cases hb : b < s.acts.length
  · rw [List.getElem?_append_left hb]
  · have hb' : s.acts.length ≤ b := Nat.le_of_not_lt hb
    have h2 : s.acts[b]? = none := by simpa using hb'
    rw [h2]
    by_cases hbe : b = s.acts.length
    · subst hbe; simp [hn, Pc.holds]
    · have : (s.acts ++ [n])[b]? = none := by
        simp; omega
      rw [this]

/-- release where the queue's state is overwritten with `setQState` -/
theorem HolderInv.release' {s X : State} {a q0 : Nat} {act v' : Act} {st : QState} (h : HolderInv s)
    (ha : s.acts[a]? = some act) (hold : ∀ q, act.pc.holds q = (q0 == q)) (hnew : ∀ q, v'.pc.holds q = false)
    (hX : ∀ b q, (X.pcAt b).holds q = (s.pcAt b).holds q) (hXlen : a < X.acts.length)
    (hXho : X.holder = s.holder.set q0 none) (hXqs : X.qs = setStateList s.qs q0 st) :
    HolderInv (X.setAct a v') := by
  obtain ⟨_, w, hw⟩ := h.mine (q := q0) ha (by rw [hold]; simp)
  refine HolderInv.release (w' := { w with state := st }) h ha hold hnew hX hXlen hXho ?_
  rw [hXqs]; simp [setStateList, hw]

end Desync

namespace Desync
open Gen

/-- release written the way the runners do it: `state := st` then hand the run right back -/
theorem HolderInv.release_idle {s Y : State} {a q0 : Nat} {act v' : Act} {st : QState} (h : HolderInv s)
    (ha : s.acts[a]? = some act) (hold : ∀ q, act.pc.holds q = (q0 == q)) (hnew : ∀ q, v'.pc.holds q = false)
    (hY : ∀ b q, (Y.pcAt b).holds q = (s.pcAt b).holds q) (hYlen : a < Y.acts.length)
    (hYho : Y.holder = s.holder) (hYqs : Y.qs = s.qs) :
    HolderInv (((Y.setQState q0 st).setHolder q0 none).setAct a v') := by
  refine HolderInv.release' (st := st) h ha hold hnew ?_ ?_ ?_ ?_
  · intro b q; simpa using hY b q
  · simpa using hYlen
  · simp [hYho]
  · simp [qs_setQState', hYqs]

end Desync
