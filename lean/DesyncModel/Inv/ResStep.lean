/-
I_result is preserved by every internal step.
-/
import DesyncModel.Inv.Res

namespace Desync
open Gen

set_option hygiene false in
/-- the mover's pending suspend signal is what it was -/
macro "res_sus" : tactic => `(tactic| (
  intro j hj
  left
  first
  | (rw [pcAt_goto_self _ (by simpa [dequeue_acts] using hlt)] at hj)
  | (rw [pcAt_setAct_self _ (by simpa [dequeue_acts] using hlt)] at hj)
  | (rw [pcAt_setQ, pcAt_goto_self _ (by simpa [dequeue_acts] using hlt)] at hj)
  rw [hpca, ‹act.pc = _›]
  first
  | exact hj
  | (simp only [Pc.suspSigs, suspSigs_ctxReady, suspSigs_ctxPending] at hj ⊢; first | exact hj | (split at hj <;> simp_all) | (simp_all; done))
  | (cases ‹Ctx› <;> simp_all [Pc.suspSigs, ctxReady, ctxPending])))

set_option hygiene false in
macro "res_fut" : tactic => `(tactic| first
  | (refine ok_of_same ?_
     first | rfl | (simp; done) | (simp [dequeue_futs]; done))
  | (apply ok_of_setFut (hfu := ‹s.futs[_]? = some _›)
     case h => first | rfl | (simp only [futs_goto, futs_setAct, futs_setJob, futs_setQ]; rfl) | (simp; done)
     case hv => intro hx; first | (simp at hx; done) | exact hx | (simp_all; done)))

theorem dequeue_futs (s : State) (q a : Nat) : (s.dequeue q a).1.futs = s.futs := by
  unfold State.dequeue
  split
  · split
    · split <;> simp
    · rfl
  · rfl

@[simp] theorem futs_newJob (s : State) (q : Nat) (k : JobKind) : (s.newJob q k).1.futs = s.futs := rfl

set_option hygiene false in
macro "res_open" : tactic => `(tactic| (
  have hlt : a < s.acts.length := lt_of_getElem?_some ha
  have hpca := pcAt_of ha
  have hm := jobMono_stepAct hs
  unfold stepAct at hs
  simp only [ha, hc, hpc, Option.isSome_none, Bool.false_eq_true, ↓reduceIte] at hs))

set_option hygiene false in
macro "res_fin" : tactic => `(tactic| (
  all_goals (try (simp at hs; done))
  all_goals (simp only [Option.some.injEq, Prod.mk.injEq] at hs; obtain ⟨rfl, _⟩ := hs)))

theorem res_stSpawn {s s' : State} {a : Nat} {o : Obs} (h : ResInv s) (act : Act) (ha : s.acts[a]? = some act) (hc : act.child = none) (m : Nat) (k : Pc)
    (hpc : act.pc = .stSpawn m k) (hs : stepAct s a = some (s', o)) : ResInv s' := by
  res_open
  split at hs
  · simp at hs
  · split at hs
    · res_fin
      have hold : a < s.acts.length + 1 := by omega
      constructor
      · intro b j hb
        by_cases hba : b = a
        · subst hba
          rw [pcAt_goto_self _ (by simpa using hold)] at hb
          have := h.sus b j (by rw [hpca, hpc]; simpa [Pc.suspSigs] using hb)
          simpa using this
        · rw [pcAt_goto_ne _ hba] at hb
          by_cases hbl : b < s.acts.length
          · simp only [State.pcAt, List.getElem?_append_left hbl] at hb
            have := h.sus b j hb
            simpa using this
          · by_cases hbe : b = s.acts.length
            · subst hbe; simp [State.pcAt, Pc.suspSigs] at hb
            · have h1 : (s.acts ++ [({ thread := 1000 + s.pthreads.length, pc := Pc.ptRecv s.pthreads.length, parent := none, child := none, woken := false, result := none, mode := Mode.await, once := false } : Act)])[b]? = none := by
                simp; omega
              simp [State.pcAt, h1, Pc.suspSigs] at hb
      · intro r fu h1 h2
        have := h.ok r fu (by simpa using h1) h2
        simpa using this
    · res_fin
      refine ResInv.step (a := a) h hm (by sim_oth) ?_ (ok_of_same (by simp))
      intro j hj
      left
      rw [pcAt_goto_self _ (by simpa using hlt)] at hj
      rw [hpca, hpc]; simpa [Pc.suspSigs] using hj

theorem res_jobStart {s s' : State} {a : Nat} {o : Obs} (h : ResInv s) (act : Act) (ha : s.acts[a]? = some act) (hc : act.child = none) (j : Nat) (c : Ctx) (k : Pc)
    (hpc : act.pc = .jobStart j c k) (hs : stepAct s a = some (s', o)) : ResInv s' := by
  res_open
  split at hs
  · simp at hs
  · next jb hjb =>
    have hlt' : j < s.jobs.length := lt_of_getElem?_some hjb
    have hbeg : (s.setJob j { jb with begun := true }).jobs[j]? = some { jb with begun := true } := by
      simp [State.setJob, List.getElem?_set, hlt']
    split at hs
    all_goals (try dsimp only at hs)
    all_goals (repeat' split at hs)
    all_goals (try (simp at hs; done))
    all_goals (simp only [Option.some.injEq, Prod.mk.injEq] at hs; obtain ⟨rfl, _⟩ := hs)
    all_goals (
      refine ResInv.step (a := a) h hm ?_ ?_ ?_
      · sim_oth
      · intro j' hj'
        rw [pcAt_goto_self _ (by simpa using hlt)] at hj'
        rw [hpca, hpc]
        simp only [Pc.suspSigs, List.mem_cons] at hj' ⊢
        first
        | exact Or.inl hj'
        | (rcases hj' with e | e
           · right; subst e; exact ⟨_, by simpa using hbeg, rfl⟩
           · exact Or.inl e)
      · res_fut)

theorem res_suspSignal {s s' : State} {a : Nat} {o : Obs} (h : ResInv s) (act : Act) (ha : s.acts[a]? = some act) (hc : act.child = none) (j : Nat) (c : Ctx) (k : Pc)
    (hpc : act.pc = .suspSignal j c k) (hs : stepAct s a = some (s', o)) : ResInv s' := by
  res_open
  obtain ⟨jb0, hjb0, hbeg⟩ := h.sus a j (by rw [hpca, hpc]; simp [Pc.suspSigs])
  split at hs
  · simp at hs
  · next jb hjb =>
    rw [hjb0] at hjb
    have hjj : jb0 = jb := Option.some.inj hjb
    subst hjj
    split at hs
    · next op g fs r hk =>
      split at hs
      · simp at hs
      · next fu hfu =>
        have hnew : ∀ (X : State) (pc' : Pc), X = (s.setFut fs { fu with res := .ok, waker := none }).goto a pc' →
            (∀ j', j' ∈ pc'.suspSigs → j' ∈ (Pc.suspSignal j c k).suspSigs) → ResInv X := by
          intro X pc' hX hsub
          subst hX
          refine ResInv.step (a := a) h (JobMono.same (by simp)) (by sim_oth) ?_ ?_
          · intro j' hj'
            left
            rw [pcAt_goto_self _ (by simpa using hlt)] at hj'
            rw [hpca, hpc]; exact hsub j' hj'
          · intro r fu' h1 h2
            simp only [futs_goto, State.setFut, List.getElem?_set] at h1
            by_cases hr : fs = r
            · subst hr
              right
              exact ⟨j, jb0, by simpa using hjb0, Or.inr ⟨op, g, r, hk, hbeg⟩⟩
            · simp only [hr, ↓reduceIte] at h1
              exact Or.inl ⟨fu', h1, h2⟩
        split at hs
        · res_fin
          refine hnew _ _ rfl ?_
          intro j' hj'
          simp only [Pc.suspSigs] at hj' ⊢
          exact List.mem_cons_of_mem _ hj'
        · res_fin
          refine hnew _ _ rfl ?_
          intro j' hj'
          simp only [Pc.suspSigs] at hj' ⊢
          exact List.mem_cons_of_mem _ hj'
    · simp at hs

theorem res_jobSignal {s s' : State} {a : Nat} {o : Obs} (h : ResInv s) (act : Act) (ha : s.acts[a]? = some act) (hc : act.child = none) (j : Nat) (c : Ctx) (k : Pc)
    (hpc : act.pc = .jobSignal j c k) (hs : stepAct s a = some (s', o)) : ResInv s' := by
  res_open
  split at hs
  · simp at hs
  · next jb hjb =>
    split at hs
    · simp at hs
    · next r hr =>
      split at hs
      · simp at hs
      · next fu hfu =>
        have hlt' : j < s.jobs.length := lt_of_getElem?_some hjb
        have hnew : ∀ (X : State) (pc' : Pc), X = ((s.setJob j { jb with ended := true, sig := true }).setFut r { fu with res := .ok, waker := none }).goto a pc' →
            (∀ j', j' ∈ pc'.suspSigs → j' ∈ (Pc.jobSignal j c k).suspSigs) → ResInv X := by
          intro X pc' hX hsub
          subst hX
          refine ResInv.step (a := a) h (JobMono.setJob_upd (v := { jb with ended := true, sig := true }) (by simp) hjb rfl rfl (fun hx => hx) (fun _ => rfl)) (by sim_oth) ?_ ?_
          · intro j' hj'
            left
            rw [pcAt_goto_self _ (by simpa using hlt)] at hj'
            rw [hpca, hpc]; exact hsub j' hj'
          · intro r' fu' h1 h2
            simp only [futs_goto, State.setFut, futs_setJob, List.getElem?_set] at h1
            by_cases hrr : r = r'
            · subst hrr
              right
              refine ⟨j, { jb with ended := true, sig := true }, ?_, Or.inl ⟨hr, rfl⟩⟩
              simp [State.setJob, List.getElem?_set, hlt']
            · simp only [hrr, ↓reduceIte] at h1
              exact Or.inl ⟨fu', h1, h2⟩
        split at hs
        · res_fin
          refine hnew _ _ rfl ?_
          intro j' hj'
          simp only [Pc.suspSigs] at hj' ⊢
          exact hj'
        · res_fin
          refine hnew _ _ rfl ?_
          intro j' hj'
          simp only [Pc.suspSigs] at hj' ⊢
          exact hj'

set_option maxHeartbeats 4000000 in
set_option maxRecDepth 8000 in
theorem resInv_stepAct {s s' : State} {a : Nat} {o : Obs} (h : ResInv s) (hs : stepAct s a = some (s', o)) : ResInv s' := by
  have hs0 := hs
  have hm := jobMono_stepAct hs
  unfold stepAct at hs
  split at hs
  · simp at hs
  next act ha =>
  split at hs
  · simp at hs
  next hchild =>
  have hlt : a < s.acts.length := lt_of_getElem?_some ha
  have hpca := pcAt_of ha
  have hc : act.child = none := by
    cases hcc : act.child <;> simp_all
  split at hs
  all_goals (try (simp at hs; done))
  all_goals (try (first
      | exact res_stSpawn h act ha hc _ _ (by assumption) hs0
      | exact res_jobStart h act ha hc _ _ _ (by assumption) hs0
      | exact res_suspSignal h act ha hc _ _ _ (by assumption) hs0
      | exact res_jobSignal h act ha hc _ _ _ (by assumption) hs0))
  all_goals (try dsimp only at hs)
  all_goals (repeat' split at hs)
  all_goals (try (simp at hs; done))
  all_goals (try (simp only [Option.some.injEq, Prod.mk.injEq] at hs; obtain ⟨rfl, _⟩ := hs))
  all_goals (first
      | (refine ResInv.step (a := a) h hm ?_ ?_ ?_
         · sim_oth
         · res_sus
         · res_fut)
      | skip)
  done

end Desync
