/-
Two-state facts about the tables of futures, for every step of the model (internal or environment): a `SchedulerFuture` is never
removed and never changes queue; a `SyncFuture` is never removed and keeps its scheduler future, its queue and its operation.
(The analogue of `JobMono` for the other two id-indexed tables; with it an id handed out by `future_desync`, `after`,
`future_sync` or `suspend` means the same object for the rest of the execution.)
-/
import DesyncModel.Inv.TaskWaker

namespace Desync
open Gen

def FutsMono (L L' : List Fut) : Prop := ∀ (f : Nat) (fu : Fut), L[f]? = some fu → ∃ fu', L'[f]? = some fu' ∧ fu'.q = fu.q
def SfsMono (L L' : List SyncFut) : Prop :=
  ∀ (u : Nat) (sf : SyncFut), L[u]? = some sf → ∃ sf', L'[u]? = some sf' ∧ sf'.f = sf.f ∧ sf'.q = sf.q ∧ sf'.op = sf.op ∧ sf'.gate = sf.gate

theorem FutsMono.refl (L : List Fut) : FutsMono L L := fun _ fu h => ⟨fu, h, rfl⟩
theorem SfsMono.refl (L : List SyncFut) : SfsMono L L := fun _ sf h => ⟨sf, h, rfl, rfl, rfl, rfl⟩

theorem FutsMono.set {L : List Fut} {f0 : Nat} {fu v : Fut} (hf : L[f0]? = some fu) (hq : v.q = fu.q) : FutsMono L (L.set f0 v) := by
  intro f x hx
  have hlt : f0 < L.length := lt_of_getElem?_some hf
  rw [List.getElem?_set]
  by_cases e : f0 = f
  · subst e
    rw [hf] at hx; cases hx
    exact ⟨v, by simp [hlt], hq⟩
  · exact ⟨x, by simp [e, hx], rfl⟩

theorem FutsMono.append (L l : List Fut) : FutsMono L (L ++ l) := by
  intro f x hx
  exact ⟨x, by rw [List.getElem?_append_left (lt_of_getElem?_some hx)]; exact hx, rfl⟩

theorem FutsMono.trans {A B C : List Fut} (h1 : FutsMono A B) (h2 : FutsMono B C) : FutsMono A C := by
  intro f x hx
  obtain ⟨y, hy, e1⟩ := h1 f x hx
  obtain ⟨z, hz, e2⟩ := h2 f y hy
  exact ⟨z, hz, e2.trans e1⟩

theorem SfsMono.set {L : List SyncFut} {u0 : Nat} {sf v : SyncFut} (hf : L[u0]? = some sf)
    (h1 : v.f = sf.f) (h2 : v.q = sf.q) (h3 : v.op = sf.op) (h4 : v.gate = sf.gate) : SfsMono L (L.set u0 v) := by
  intro u x hx
  have hlt : u0 < L.length := lt_of_getElem?_some hf
  rw [List.getElem?_set]
  by_cases e : u0 = u
  · subst e
    rw [hf] at hx; cases hx
    exact ⟨v, by simp [hlt], h1, h2, h3, h4⟩
  · exact ⟨x, by simp [e, hx], rfl, rfl, rfl, rfl⟩

theorem SfsMono.append (L l : List SyncFut) : SfsMono L (L ++ l) := by
  intro u x hx
  exact ⟨x, by rw [List.getElem?_append_left (lt_of_getElem?_some hx)]; exact hx, rfl, rfl, rfl, rfl⟩

set_option hygiene false in
macro "fm_fut" : tactic => `(tactic| first
  | exact FutsMono.refl _
  | (refine FutsMono.set (by assumption) ?_; rfl)
  | (refine FutsMono.trans (FutsMono.set (by assumption) rfl) (FutsMono.set (by first | assumption | (simp; done)) ?_); rfl))

set_option hygiene false in
macro "fm_sf" : tactic => `(tactic| first
  | exact SfsMono.refl _
  | (refine SfsMono.set (by assumption) ?_ ?_ ?_ ?_ <;> rfl))

set_option maxHeartbeats 4000000 in
set_option maxRecDepth 8000 in
/-- **every internal step keeps every future and sync-future, and the queue (scheduler future, operation) each belongs to** -/
theorem futMono_stepAct {s s' : State} {a : Nat} {o : Obs} (hs : stepAct s a = some (s', o)) :
    FutsMono s.futs s'.futs ∧ SfsMono s.sfs s'.sfs := by
  unfold stepAct at hs
  split at hs
  · simp at hs
  next act ha =>
  split at hs
  · simp at hs
  next hchild =>
  split at hs
  all_goals (try (simp at hs; done))
  all_goals (try dsimp only at hs)
  all_goals (repeat' split at hs)
  all_goals (try (simp at hs; done))
  all_goals (try (simp only [Option.some.injEq, Prod.mk.injEq] at hs; obtain ⟨rfl, _⟩ := hs))
  all_goals (refine ⟨?_, ?_⟩)
  all_goals (try tw_norm)
  all_goals (first | fm_fut | fm_sf | skip)

theorem futs_addAct (s0 : State) (t : Nat) (parent : Option Nat) (pc : Pc) (once : Bool) :
    (addAct s0 t parent pc once).1.futs = s0.futs ∧ (addAct s0 t parent pc once).1.sfs = s0.sfs := by
  unfold addAct
  cases parent with
  | none => exact ⟨rfl, rfl⟩
  | some p => simp only; split <;> exact ⟨rfl, rfl⟩

theorem futMono_invoke {s s' : State} {t a : Nat} {parent : Option Nat} {c : Call} (hs : invoke s t parent c = some (s', a)) :
    FutsMono s.futs s'.futs ∧ SfsMono s.sfs s'.sfs := by
  unfold invoke at hs
  cases c <;> simp only at hs
  all_goals (repeat' split at hs)
  all_goals (try (simp at hs; done))
  all_goals (
    have hs' := congrArg Prod.fst (Option.some.inj hs)
    simp only at hs'
    subst hs'
    rw [(futs_addAct _ t parent _ _).1, (futs_addAct _ t parent _ _).2]
    refine ⟨?_, ?_⟩ <;> first
      | exact FutsMono.refl _
      | exact SfsMono.refl _
      | exact FutsMono.append _ _
      | exact SfsMono.append _ _
      | (split <;> (try split) <;> first | exact FutsMono.refl _ | exact SfsMono.refl _ | exact FutsMono.append _ _ | exact SfsMono.append _ _))

/-- **... and so does every step of the model, the environment's included** -/
theorem futMono_next {s s' : State} {l : Label} (hstep : next s l = some s') : FutsMono s.futs s'.futs ∧ SfsMono s.sfs s'.sfs := by
  cases l with
  | act a =>
    simp only [next, Option.map_eq_some_iff] at hstep
    obtain ⟨⟨s1, o⟩, hs, rfl⟩ := hstep
    exact futMono_stepAct hs
  | invoke t parent c =>
    simp only [next] at hstep
    split at hstep
    · simp only [Option.map_eq_some_iff] at hstep
      obtain ⟨⟨s1, a⟩, hs, rfl⟩ := hstep
      exact futMono_invoke hs
    · simp at hstep
  | bodyEnd a =>
    simp only [next, Option.map_eq_some_iff] at hstep
    obtain ⟨⟨s1, o⟩, hs, rfl⟩ := hstep
    unfold bodyEnd at hs
    repeat' split at hs
    all_goals (try (simp at hs; done))
    all_goals (obtain ⟨rfl, _⟩ := Prod.mk.inj (Option.some.inj hs); simp only [futs_goto, sfs_goto]; exact ⟨FutsMono.refl _, SfsMono.refl _⟩)
  | ret a =>
    simp only [next, Option.map_eq_some_iff] at hstep
    obtain ⟨⟨s1, r⟩, hs, rfl⟩ := hstep
    rw [(futs_retStep hs).1, (futs_retStep hs).2]; exact ⟨FutsMono.refl _, SfsMono.refl _⟩
  | spuriousUnpark a =>
    simp only [next, Option.map_eq_some_iff] at hstep
    obtain ⟨⟨s1, o⟩, hs, rfl⟩ := hstep
    unfold spuriousUnpark at hs
    repeat' split at hs
    all_goals (try (simp at hs; done))
    all_goals (obtain ⟨rfl, _⟩ := Prod.mk.inj (Option.some.inj hs); simp only [futs_goto, sfs_goto]; exact ⟨FutsMono.refl _, SfsMono.refl _⟩)
  | spuriousPoll a =>
    simp only [next] at hstep
    unfold spuriousPoll at hstep
    repeat' split at hstep
    all_goals (try (simp at hstep; done))
    all_goals (cases (Option.some.inj hstep); simp only [futs_goto, sfs_goto]; exact ⟨FutsMono.refl _, SfsMono.refl _⟩)

end Desync
