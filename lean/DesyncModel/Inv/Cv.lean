/-
The condition-variable protocol of `sync_background` (C04; the job-completion half of the class of defect F3):
a sync caller asleep on its condition variable is never left there once its job has been run — when the `ready` flag is
set, the caller has been notified, or the notification is on its way, or the caller is not asleep.  The argument is the
one the code comments give: the caller holds its `ready` lock from the moment it sees "not ready" until it starts waiting,
and whoever sets the flag or signals the caller takes that lock.
-/
import DesyncModel.Inv.PoolSimBase
import DesyncModel.Inv.JobMono
import DesyncModel.Inv.ErasedProj

namespace Desync
open Gen

/-- the heads that matter to the protocol -/
def Pc.cvSpecial : Pc → Bool
  | .sbTest _ _ | .sbClaim _ _ | .sbClaimRel _ _ _ | .sbRelReady _ _ | .sbWait _ _ | .sbWaiting _ _ | .sbDone _ _ => true
  | .rqNotify _ _ _ _ | .rqNotifyRel _ _ _ _ => true
  | .jobDropNotify _ _ _ => true
  | _ => false

/-- none of those heads occurs anywhere in the pc -/
def Pc.cvQuiet : Pc → Bool
  | .begin _ k | .body _ k | .unwinding k => k.cvQuiet
  | .stReap k | .stScanLock k | .stScan _ k | .stScanHeld _ k | .stScanRel _ _ k
  | .stScanUnlock _ k | .stReadMax k | .stSpawn _ k | .stSpawnRel k => k.cvQuiet
  | .rqCs _ k | .rqNotifyAcq _ _ _ k | .rqPush _ k => k.cvQuiet
  | .rqNotify _ _ _ _ | .rqNotifyRel _ _ _ _ => false
  | .resumeSend _ k | .waking _ k | .openSend _ k | .wqCs _ k | .wtCs _ _ k | .wtUnpark _ k | .lwCs _ k | .dwCs _ k => k.cvQuiet
  | .rjDequeue _ k | .rjPending _ _ k | .rjParkCheck _ _ k | .rjPark _ _ k | .rjParked _ _ k => k.cvQuiet
  | .jobStart _ c k | .jobAwait _ c k | .jobBodyDone _ c k | .jobEnd _ c k | .jobSignal _ c k
  | .jobSigDrop _ c k | .jobDrop _ c k | .suspSignal _ c k | .suspSigDrop _ c k =>
      (match c with | .caller _ => k.cvQuiet | _ => true)
  | .jobDropNotify _ _ _ => false
  | .sbTest _ _ | .sbClaim _ _ | .sbClaimRel _ _ _ | .sbRelReady _ _ | .sbWait _ _ | .sbWaiting _ _ | .sbDone _ _ => false
  | .pfPollRel _ next => next.cvQuiet
  | .dqWakeWith _ _ _ k => k.cvQuiet
  | .fdDrop _ k => k.cvQuiet
  | _ => true

/-- the only such head is the head of the pc itself -/
def Pc.cvWf : Pc → Bool
  | .rqNotify _ _ _ k | .rqNotifyRel _ _ _ k => k.cvQuiet
  | .jobDropNotify _ c k => (match c with | .caller _ => k.cvQuiet | _ => true)
  | .sbTest _ _ | .sbClaim _ _ | .sbClaimRel _ _ _ | .sbRelReady _ _ | .sbWait _ _ | .sbWaiting _ _ | .sbDone _ _ => true
  | pc => pc.cvQuiet

theorem cvQuiet_wf (pc : Pc) (h : pc.cvQuiet = true) : pc.cvWf = true := by
  unfold Pc.cvWf
  split <;> simp_all [Pc.cvQuiet]

theorem cvQuiet_not_special (pc : Pc) (h : pc.cvQuiet = true) : pc.cvSpecial = false := by
  cases pc <;> simp_all [Pc.cvQuiet, Pc.cvSpecial]

@[simp] theorem cvQuiet_ctxReady (k : Pc) (c : Ctx) : (ctxReady k c).cvQuiet = (match c with | .caller _ => k.cvQuiet | _ => true) := by
  cases c <;> simp [ctxReady, Pc.cvQuiet]
@[simp] theorem cvQuiet_ctxPending (j : Nat) (k : Pc) (c : Ctx) : (ctxPending j k c).cvQuiet = (match c with | .caller _ => k.cvQuiet | _ => true) := by
  cases c <;> simp [ctxPending, Pc.cvQuiet]

/-- the caller holds its own `ready` lock -/
def Pc.sbOwn : Pc → Bool
  | .sbTest _ _ | .sbClaim _ _ | .sbClaimRel _ _ _ | .sbRelReady _ _ | .sbWait _ _ | .sbDone _ _ => true
  | _ => false

/-- the caller has seen "not ready" and still holds the lock -/
def Pc.sbNr : Pc → Bool
  | .sbClaim _ _ | .sbClaimRel _ _ _ | .sbWait _ _ => true
  | _ => false

/-- the caller is asleep on its condition variable -/
def Pc.sbAsleep : Pc → Bool
  | .sbWaiting _ _ => true
  | _ => false

/-- `reschedule_queue` holds the `ready` lock of the caller it is signalling -/
def Pc.notifies : Pc → Option Nat
  | .rqNotify _ (w :: _) _ _ | .rqNotifyRel _ (w :: _) _ _ => some w
  | _ => none

/-- the dropped lifetime-erased job whose owner is about to be notified -/
def Pc.dropNotifies : Pc → Option Nat
  | .jobDropNotify j _ _ => some j
  | _ => none

/-- the sync caller whose lifetime-erased background job `j` is -/
def State.jobOwner (s : State) (j : Nat) : Option Nat :=
  match s.jobs[j]? with
  | some jb => (match jb.kind with | .erasedBg o _ => some o | _ => none)
  | none => none

theorem jobOwner_mono {s X : State} (hm : JobMono s X) {j a : Nat} (h : s.jobOwner j = some a) : X.jobOwner j = some a := by
  unfold State.jobOwner at h ⊢
  split at h
  · next jb hjb =>
    obtain ⟨jb', h1, h2, _⟩ := hm j jb hjb
    rw [h1]; simp only; rw [h2]; exact h
  · cases h

theorem not_special_classes {pc : Pc} (h : pc.cvSpecial = false) :
    pc.sbOwn = false ∧ pc.sbNr = false ∧ pc.sbAsleep = false ∧ pc.notifies = none ∧ pc.dropNotifies = none := by
  cases pc <;> simp_all [Pc.cvSpecial, Pc.sbOwn, Pc.sbNr, Pc.sbAsleep, Pc.notifies, Pc.dropNotifies]

structure CvInv (s : State) : Prop where
  wf : ∀ b, (s.pcAt b).cvWf = true
  ml : ∀ w h h', (w, h) ∈ s.readyLock → (w, h') ∈ s.readyLock → h = h'
  rl : ∀ a, (s.pcAt a).sbOwn = true → (a, a) ∈ s.readyLock
  rl2 : ∀ b w, (s.pcAt b).notifies = some w → (w, b) ∈ s.readyLock
  nr : ∀ a, (s.pcAt a).sbNr = true → s.isReady a = false
  w : ∀ a, (s.pcAt a).sbAsleep = true → s.isWoken a = true ∨ s.isReady a = false ∨ ∃ b j, (s.pcAt b).dropNotifies = some j ∧ s.jobOwner j = some a

/-- a step of `a` from and to program counters the protocol does not care about, touching neither the locks, the flags nor
anybody's `woken` bit -/
theorem CvInv.frame {s X : State} {a : Nat} (h : CvInv s) (hm : JobMono s X) (hrl : X.readyLock = s.readyLock) (hr : ∀ b, X.isReady b = s.isReady b)
    (hoth : ∀ b, b ≠ a → X.pcAt b = s.pcAt b) (hwok : ∀ b, b ≠ a → X.isWoken b = s.isWoken b)
    (hold : (s.pcAt a).cvSpecial = false) (hnew : (X.pcAt a).cvQuiet = true) : CvInv X := by
  have hn := not_special_classes (cvQuiet_not_special _ hnew)
  have ho := not_special_classes hold
  refine ⟨?_, ?_, ?_, ?_, ?_, ?_⟩
  · intro b
    by_cases hba : b = a
    · subst hba; exact cvQuiet_wf _ hnew
    · rw [hoth b hba]; exact h.wf b
  · rw [hrl]; exact h.ml
  · intro b hb
    by_cases hba : b = a
    · subst hba; rw [hn.1] at hb; cases hb
    · rw [hoth b hba] at hb; rw [hrl]; exact h.rl b hb
  · intro b w hb
    by_cases hba : b = a
    · subst hba; rw [hn.2.2.2.1] at hb; cases hb
    · rw [hoth b hba] at hb; rw [hrl]; exact h.rl2 b w hb
  · intro b hb
    by_cases hba : b = a
    · subst hba; rw [hn.2.1] at hb; cases hb
    · rw [hoth b hba] at hb; rw [hr]; exact h.nr b hb
  · intro b hb
    by_cases hba : b = a
    · subst hba; rw [hn.2.2.1] at hb; cases hb
    · rw [hoth b hba] at hb
      rw [hwok b hba, hr]
      rcases h.w b hb with h1 | h1 | ⟨c, j, h1, h2⟩
      · exact Or.inl h1
      · exact Or.inr (Or.inl h1)
      · refine Or.inr (Or.inr ⟨c, j, ?_, jobOwner_mono hm h2⟩)
        have hca : c ≠ a := fun e => by subst e; rw [ho.2.2.2.2] at h1; cases h1
        rw [hoth c hca]; exact h1

theorem sbNr_sbOwn {pc : Pc} (h : pc.sbNr = true) : pc.sbOwn = true := by
  cases pc <;> simp_all [Pc.sbNr, Pc.sbOwn]

theorem not_held_of {s : State} {w : Nat} (h : s.readyHeld w = false) : ∀ x, (w, x) ∉ s.readyLock := by
  intro x hx
  have : s.readyHeld w = true := by
    simp only [State.readyHeld, List.any_eq_true]
    exact ⟨(w, x), hx, by simp⟩
  rw [h] at this; cases this

/-- what a step does to the `ready` locks: nothing, the mover takes a free one, or the mover lets go of one it holds -/
def LockStep (s X : State) (a : Nat) : Prop :=
  X.readyLock = s.readyLock ∨ (∃ w, (∀ x, (w, x) ∉ s.readyLock) ∧ X.readyLock = (w, a) :: s.readyLock) ∨
  (∃ w, (w, a) ∈ s.readyLock ∧ X.readyLock = s.readyLock.filter (fun p => p.1 != w))

theorem LockStep.keeps {s X : State} {a : Nat} (h : CvInv s) (hl : LockStep s X a) {w b : Nat} (hba : b ≠ a) (hm : (w, b) ∈ s.readyLock) :
    (w, b) ∈ X.readyLock := by
  rcases hl with e | ⟨w', _, e⟩ | ⟨w', hw', e⟩
  · rw [e]; exact hm
  · rw [e]; exact List.mem_cons_of_mem _ hm
  · rw [e]
    simp only [List.mem_filter, bne_iff_ne, ne_eq]
    refine ⟨hm, ?_⟩
    intro e2
    subst e2
    exact hba (h.ml _ _ _ hm hw')

theorem LockStep.ml {s X : State} {a : Nat} (h : CvInv s) (hl : LockStep s X a) :
    ∀ w x x', (w, x) ∈ X.readyLock → (w, x') ∈ X.readyLock → x = x' := by
  intro w x x' h1 h2
  rcases hl with e | ⟨w', hfree, e⟩ | ⟨w', _, e⟩
  · rw [e] at h1 h2; exact h.ml w x x' h1 h2
  · rw [e] at h1 h2
    rcases List.mem_cons.mp h1 with e1 | e1 <;> rcases List.mem_cons.mp h2 with e2 | e2
    · rw [Prod.mk.injEq] at e1 e2; rw [e1.2, e2.2]
    · rw [Prod.mk.injEq] at e1; exact absurd e2 (by rw [e1.1]; exact hfree x')
    · rw [Prod.mk.injEq] at e2; exact absurd e1 (by rw [e2.1]; exact hfree x)
    · exact h.ml w x x' e1 e2
  · rw [e] at h1 h2
    exact h.ml w x x' (List.mem_filter.mp h1).1 (List.mem_filter.mp h2).1

/-- the general step: the mover's new program counter is accounted for explicitly, everybody else keeps what they had -/
theorem CvInv.step {s X : State} {a : Nat} (h : CvInv s) (hm : JobMono s X)
    (hoth : ∀ b, b ≠ a → X.pcAt b = s.pcAt b) (hlock : LockStep s X a)
    (hreadyNew : ∀ b, b ≠ a → X.isReady b = true → s.isReady b = true ∨ ((∀ x, (b, x) ∉ s.readyLock) ∧ ∃ j, (X.pcAt a).dropNotifies = some j ∧ X.jobOwner j = some b))
    (hwok : ∀ b, b ≠ a → s.isWoken b = true → X.isWoken b = true)
    (hleave : ∀ j b, (s.pcAt a).dropNotifies = some j → s.jobOwner j = some b → b ≠ a → (s.pcAt b).sbAsleep = true → X.isWoken b = true ∨ (X.pcAt a).dropNotifies = some j)
    (hwf : (X.pcAt a).cvWf = true)
    (hown : (X.pcAt a).sbOwn = true → (a, a) ∈ X.readyLock)
    (hnot : ∀ w, (X.pcAt a).notifies = some w → (w, a) ∈ X.readyLock)
    (hnr : (X.pcAt a).sbNr = true → X.isReady a = false)
    (hw : (X.pcAt a).sbAsleep = true → X.isWoken a = true ∨ X.isReady a = false ∨ ∃ b j, (X.pcAt b).dropNotifies = some j ∧ X.jobOwner j = some a) :
    CvInv X := by
  refine ⟨?_, LockStep.ml h hlock, ?_, ?_, ?_, ?_⟩
  · intro b
    by_cases hba : b = a
    · subst hba; exact hwf
    · rw [hoth b hba]; exact h.wf b
  · intro b hb
    by_cases hba : b = a
    · subst hba; exact hown hb
    · rw [hoth b hba] at hb; exact LockStep.keeps h hlock hba (h.rl b hb)
  · intro b w hb
    by_cases hba : b = a
    · subst hba; exact hnot w hb
    · rw [hoth b hba] at hb; exact LockStep.keeps h hlock hba (h.rl2 b w hb)
  · intro b hb
    by_cases hba : b = a
    · subst hba; exact hnr hb
    · rw [hoth b hba] at hb
      cases hx : X.isReady b with
      | false => rfl
      | true =>
        rcases hreadyNew b hba hx with h1 | ⟨h1, _⟩
        · rw [h.nr b hb] at h1; cases h1
        · exact absurd (h.rl b (sbNr_sbOwn hb)) (h1 b)
  · intro b hb
    by_cases hba : b = a
    · subst hba; exact hw hb
    · rw [hoth b hba] at hb
      rcases h.w b hb with h1 | h1 | ⟨c, j, h1, h2⟩
      · exact Or.inl (hwok b hba h1)
      · cases hx : X.isReady b with
        | false => exact Or.inr (Or.inl rfl)
        | true =>
          rcases hreadyNew b hba hx with h3 | ⟨_, j, h3, h4⟩
          · rw [h1] at h3; cases h3
          · exact Or.inr (Or.inr ⟨a, j, h3, h4⟩)
      · by_cases hca : c = a
        · subst hca
          rcases hleave j b h1 h2 hba hb with h3 | h3
          · exact Or.inl h3
          · exact Or.inr (Or.inr ⟨c, j, h3, jobOwner_mono hm h2⟩)
        · exact Or.inr (Or.inr ⟨c, j, by rw [hoth c hca]; exact h1, jobOwner_mono hm h2⟩)

end Desync
