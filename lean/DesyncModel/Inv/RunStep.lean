/-
RunInv is preserved by every internal step.
-/
import DesyncModel.Inv.Run
namespace Desync
open Gen

theorem RunInv.of_eq {s X : State} (h : RunInv s) (hpc : ∀ b, X.pcAt b = s.pcAt b) (hq : ∀ i, X.qjobs i = s.qjobs i)
    (hg : ∀ i, X.jobRan i = s.jobRan i) : RunInv X :=
  RunInv.step h (fun i hi => by rw [hg] at hi; exact hi) (fun q l' j hl hm => Or.inr ⟨l', by rw [hq] at hl; exact hl, hm⟩)
    (fun b j q hr => Or.inr ⟨by rw [hpc] at hr; exact hr, fun hp => by rw [hpc]; exact hp⟩)

theorem RunInv.congr {X Y : State} (h : RunInv Y) (hA : X.acts = Y.acts) (hJ : X.jobs = Y.jobs) (hQ : X.qs = Y.qs) : RunInv X :=
  RunInv.of_eq h (fun b => by simp only [State.pcAt, hA]) (fun i => by simp only [State.qjobs, hQ]) (fun i => by simp only [State.jobRan, hJ])

/-- a new job, already begun, is created in the hands of its creator, who is about to run its closure -/
theorem RunInv.new_held_ran {s X : State} {a q : Nat} {pc' : Pc} (hf : FullInv s) (h : RunInv s)
    (hpc : ∀ b, X.pcAt b = s.pcAt b) (hq : ∀ i, X.qjobs i = s.qjobs i)
    (hg : ∀ i, i ≠ s.jobs.length → X.jobRan i = s.jobRan i)
    (hnew : pc'.runningQ = some (s.jobs.length, q)) (hin : pc'.inBody = true) : RunInv (X.goto a pc') := by
  have hfresh : s.jobPQ s.jobs.length = none := jobPQ_fresh s
  refine ⟨?_, ?_⟩
  · intro c j' q' hr hs
    rcases pcAt_goto_cases X a c pc' with ⟨e, rfl⟩ | e <;> rw [e] at hr ⊢
    · exact hin
    · rw [hpc] at hr ⊢
      rw [jobRan_goto] at hs
      by_cases hj : j' = s.jobs.length
      · subst hj
        have := hf.run1 c _ q' hr
        rw [hfresh] at this; cases this
      · rw [hg j' hj] at hs
        exact h.holders c j' q' hr hs
  · intro q' l j' hl hm
    rw [qjobs_goto, hq] at hl
    rw [jobRan_goto]
    by_cases hj : j' = s.jobs.length
    · subst hj
      have := hf.queued q' l _ hl hm
      rw [hfresh] at this; cases this
    · rw [hg j' hj]
      exact h.queued q' l j' hl hm

theorem RunInv.immediate {s : State} {a q : Nat} {b : Body} {st : QState} {v : JobQ} (hf : FullInv s) (h : RunInv s) (hv : s.qs[q]? = some v) :
    RunInv (((({ (s.setQ q { v with state := st }) with jobs := (s.setQ q { v with state := st }).jobs ++ [⟨q, .immediate a b, .held a, true, false, none, false⟩] } : State).setHolder q (some a)).goto a
      (.begin b (.siIdle q (s.setQ q { v with state := st }).jobs.length)))) := by
  refine RunInv.new_held_ran (q := q) hf h (fun c => rfl) (fun i => ?_) (fun i hne => ?_) rfl rfl
  · rw [qjobs_setHolder]; exact qjobs_setQ_state hv st v.waiters i
  · rw [jobRan_setHolder]
    exact jobRan_append_ne (s := s) (nj := ⟨q, .immediate a b, .held a, true, false, none, false⟩) rfl i hne

theorem RunInv.append_act {s X : State} {n : Act} (h : RunInv s) (hA : X.acts = s.acts ++ [n]) (hn : n.pc.runningQ = none)
    (hJ : X.jobs = s.jobs) (hQ : X.qs = s.qs) : RunInv X := by
  refine RunInv.step h (fun i hi => by simpa only [State.jobRan, hJ] using hi)
    (fun q l' j hl hm => Or.inr ⟨l', by simpa only [State.qjobs, hQ] using hl, hm⟩) ?_
  intro b j q hr
  simp only [State.pcAt, hA] at hr ⊢
  by_cases hlt : b < s.acts.length
  · rw [List.getElem?_append_left hlt] at hr ⊢
    exact Or.inr ⟨hr, id⟩
  · by_cases hbe : b = s.acts.length
    · subst hbe; simp [hn] at hr
    · have h1 : (s.acts ++ [n])[b]? = none := by simp; omega
      rw [h1] at hr; simp [Pc.runningQ] at hr

/-- the step that invokes the closure: the flag is raised by the activity that has the job in hand, which is then inside the closure -/
theorem RunInv.raise {s X : State} {a j q : Nat} {pc' : Pc} (hf : FullInv s) (h : RunInv s)
    (hold : (s.pcAt a).runningQ = some (j, q))
    (hpc : ∀ b, X.pcAt b = s.pcAt b) (hq : ∀ i, X.qjobs i = s.qjobs i)
    (hg : ∀ i, X.jobRan i = if i = j then true else s.jobRan i)
    (hnew : pc'.runningQ = some (j, q)) (hpost : pc'.inBody = true) : RunInv (X.goto a pc') := by
  have hja := hf.run1 a j q hold
  have hltX : a < X.acts.length := by
    by_cases hl : a < X.acts.length
    · exact hl
    · exfalso
      have : X.pcAt a = .dead := by simp [State.pcAt, List.getElem?_eq_none (Nat.le_of_not_lt hl)]
      rw [hpc] at this; rw [this] at hold; simp [Pc.runningQ] at hold
  refine ⟨?_, ?_⟩
  · intro b j' q' hr hs
    by_cases hb : b = a
    · subst hb
      have e : (X.goto b pc').pcAt b = pc' := by rw [pcAt_goto]; simp [hltX]
      rw [e]; exact hpost
    · have e : (X.goto a pc').pcAt b = X.pcAt b := by
        rw [pcAt_goto]; split
        · next hab => exact absurd hab.1.symm hb
        · rfl
      rw [e, hpc] at hr ⊢
      rw [jobRan_goto, hg] at hs
      split at hs
      · next ej =>
        subst ej
        have hjb := hf.run1 b j' q' hr
        rw [hja] at hjb
        simp only [Option.some.injEq, Prod.mk.injEq, Phase.held.injEq] at hjb
        exact absurd hjb.1.symm hb
      · exact h.holders b j' q' hr hs
  · intro q' l j' hl hm
    rw [qjobs_goto, hq] at hl
    rw [jobRan_goto, hg]
    split
    · next ej =>
      subst ej
      -- the job in hand is not in any list
      have hjq := hf.queued q' l j' hl hm
      rw [hja] at hjq; simp at hjq
    · exact h.queued q' l j' hl hm


/-! ### per-pc cases -/

theorem r_dequeue {s s' : State} {a : Nat} {o : Obs} (hw : WfInv s) (h : RunInv s) (act : Act) (ha : s.acts[a]? = some act) (hc : act.child = none)
    (hs : stepAct s a = some (s', o))
    (hpc : (∃ q k, act.pc = .rjDequeue q k) ∨ (∃ p q, act.pc = .pdDequeue p q) ∨ (∃ f q, act.pc = .dqDequeue f q)) : RunInv s' := by
  have hpca := pcAt_of ha
  have hwk := hw a
  rcases hpc with ⟨q, k, hpc⟩ | ⟨p, q, hpc⟩ | ⟨f, q, hpc⟩
  · rw [hpca, hpc] at hwk
    simp only [Pc.callerOk] at hwk
    unfold stepAct at hs
    simp only [ha, hc, hpc, Option.isSome_none, Bool.false_eq_true, ↓reduceIte] at hs
    cases hd : (s.dequeue q a).2 with
    | some j =>
      simp only [hd, Option.some.injEq, Prod.mk.injEq] at hs; obtain ⟨rfl, _⟩ := hs
      exact RunInv.dequeue_take h hd (by simp [Pc.runningQ, Ctx.q])
    | none =>
      simp only [hd, Option.some.injEq, Prod.mk.injEq] at hs; obtain ⟨rfl, _⟩ := hs
      exact RunInv.dequeue_none h hd (Or.inl (plainFor_running hwk))
  · unfold stepAct at hs
    simp only [ha, hc, hpc, Option.isSome_none, Bool.false_eq_true, ↓reduceIte] at hs
    cases hd : (s.dequeue q a).2 with
    | some j =>
      simp only [hd, Option.some.injEq, Prod.mk.injEq] at hs; obtain ⟨rfl, _⟩ := hs
      exact RunInv.dequeue_take h hd (by simp [Pc.runningQ, Ctx.q])
    | none =>
      simp only [hd, Option.some.injEq, Prod.mk.injEq] at hs; obtain ⟨rfl, _⟩ := hs
      exact RunInv.dequeue_none h hd (Or.inl rfl)
  · unfold stepAct at hs
    simp only [ha, hc, hpc, Option.isSome_none, Bool.false_eq_true, ↓reduceIte] at hs
    cases hd : (s.dequeue q a).2 with
    | some j =>
      simp only [hd, Option.some.injEq, Prod.mk.injEq] at hs; obtain ⟨rfl, _⟩ := hs
      have h1 := RunInv.dequeue_take (pc' := .jobStart j (.task f (s.dequeue q a).1.latches.length q) .dead) h hd (by simp [Pc.runningQ, Ctx.q])
      exact RunInv.congr h1 (goto_congr _ _ rfl) (by rw [jobs_goto', jobs_goto']) (by rw [qs_goto', qs_goto'])
    | none =>
      simp only [hd, Option.some.injEq, Prod.mk.injEq] at hs; obtain ⟨rfl, _⟩ := hs
      exact RunInv.dequeue_none h hd (Or.inl rfl)

theorem r_requeue {s s' : State} {a : Nat} {o : Obs} (h : RunInv s) (act : Act) (ha : s.acts[a]? = some act) (hc : act.child = none)
    (hs : stepAct s a = some (s', o))
    (hpc : (∃ p q j, act.pc = .pdRequeue p q j) ∨ (∃ f j l q, act.pc = .dqRequeue f j l q)) : RunInv s' := by
  have hpca := pcAt_of ha
  rcases hpc with ⟨p, q, j, hpc⟩ | ⟨f, j, l, q, hpc⟩
  all_goals (
    unfold stepAct at hs
    simp only [ha, hc, hpc, Option.isSome_none, Bool.false_eq_true, ↓reduceIte] at hs
    simp only [Option.some.injEq, Prod.mk.injEq] at hs; obtain ⟨rfl, _⟩ := hs
    exact RunInv.requeue_front h (by rw [hpca, hpc]; rfl) (by rw [hpca, hpc]; rfl) rfl)

theorem r_dsPush {s s' : State} {a : Nat} {o : Obs} (h : RunInv s) (act : Act) (ha : s.acts[a]? = some act) (hc : act.child = none)
    (q : Nat) (kind : JobKind) (hpc : act.pc = .dsPush q kind) (hs : stepAct s a = some (s', o)) : RunInv s' := by
  unfold stepAct at hs
  simp only [ha, hc, hpc, Option.isSome_none, Bool.false_eq_true, ↓reduceIte] at hs
  split at hs
  · simp at hs
  next v hv =>
  have hv' : (s.newJob q kind).1.qs[q]? = some v := hv
  repeat' split at hs
  all_goals (simp only [Option.some.injEq, Prod.mk.injEq] at hs; obtain ⟨rfl, _⟩ := hs)
  all_goals (refine RunInv.new_job (q := q) h (fun c => rfl) (fun i => by simp) ?_ (Or.inl rfl))
  all_goals (refine qjobs_append_new hv _ ?_; intro i; rw [qjobs_setQ_of hv']; simp)

theorem r_sbPush {s s' : State} {a : Nat} {o : Obs} (h : RunInv s) (act : Act) (ha : s.acts[a]? = some act) (hc : act.child = none)
    (q : Nat) (b : Body) (hpc : act.pc = .sbPush q b) (hs : stepAct s a = some (s', o)) : RunInv s' := by
  unfold stepAct at hs
  simp only [ha, hc, hpc, Option.isSome_none, Bool.false_eq_true, ↓reduceIte] at hs
  split at hs
  · simp at hs
  next v hv =>
  have hv' : (s.newJob q (.erasedBg a b)).1.qs[q]? = some v := hv
  repeat' split at hs
  all_goals (simp only [Option.some.injEq, Prod.mk.injEq] at hs; obtain ⟨rfl, _⟩ := hs)
  all_goals (refine RunInv.new_job (q := q) h (fun c => rfl) (fun i => by simp) ?_ (Or.inl rfl))
  all_goals (refine qjobs_append_new hv _ ?_; intro i; rw [qjobs_setQ_of hv']; simp)

theorem r_sdPush {s s' : State} {a : Nat} {o : Obs} (hh : HolderInv s) (h : RunInv s) (act : Act) (ha : s.acts[a]? = some act) (hc : act.child = none)
    (q : Nat) (b : Body) (hpc : act.pc = .sdPush q b) (hs : stepAct s a = some (s', o)) : RunInv s' := by
  have hpca := pcAt_of ha
  unfold stepAct at hs
  simp only [ha, hc, hpc, Option.isSome_none, Bool.false_eq_true, ↓reduceIte] at hs
  simp only [Option.some.injEq, Prod.mk.injEq] at hs; obtain ⟨rfl, _⟩ := hs
  have hholds : (s.pcAt a).holds q = true := by rw [hpca, hpc]; simp [Pc.holds]
  have hho := (hh.iff a q).mp hholds
  have hqlt : q < s.qs.length := by
    have := (List.getElem?_eq_some_iff.mp hho).1; rw [hh.len] at this; exact this
  obtain ⟨v, hv⟩ : ∃ v, s.qs[q]? = some v := ⟨s.qs[q], List.getElem?_eq_getElem hqlt⟩
  have hv' : (s.newJob q (.erasedDrain a b)).1.qs[q]? = some v := hv
  refine RunInv.new_job (q := q) h (fun c => by simp) (fun i => by simp) ?_ (Or.inl rfl)
  refine qjobs_append_new hv _ ?_
  intro i
  unfold State.pushBack
  rw [hv']
  simp only [newJob_snd]
  rw [qjobs_setQ_of hv']; simp

theorem r_decide {s s' : State} {a : Nat} {o : Obs} (hf : FullInv s) (h : RunInv s) (act : Act) (ha : s.acts[a]? = some act) (hc : act.child = none)
    (hs : stepAct s a = some (s', o))
    (hpc : (∃ q b, act.pc = .syDecide q b) ∨ (∃ q b, act.pc = .tsDecide q b)) : RunInv s' := by
  rcases hpc with ⟨q, b, hpc⟩ | ⟨q, b, hpc⟩
  all_goals (
    unfold stepAct at hs
    simp only [ha, hc, hpc, Option.isSome_none, Bool.false_eq_true, ↓reduceIte] at hs
    cases hv : s.qs[q]? with
    | none => simp [hv] at hs
    | some v =>
      simp only [hv] at hs
      repeat' split at hs
      all_goals (simp only [Option.some.injEq, Prod.mk.injEq] at hs; obtain ⟨rfl, _⟩ := hs)
      all_goals (first
        | exact RunInv.immediate hf h hv
        | (refine RunInv.frame h (fun c => by simp) (fun i => by rw [qjobs_setHolder]; exact qjobs_setQ_state hv _ _ i) (fun i => by simp) (Or.inl rfl))
        | (refine RunInv.frame h (fun c => by simp) (fun i => qjobs_setQ_state hv _ _ i) (fun i => by simp) (Or.inl rfl))
        | (refine RunInv.frame_setAct h (fun c => by simp) (fun i => qjobs_setQ_state hv _ _ i) (fun i => by simp) (Or.inl rfl))))

theorem r_jobStart {s s' : State} {a : Nat} {o : Obs} (hf : FullInv s) (h : RunInv s) (act : Act) (ha : s.acts[a]? = some act) (hc : act.child = none)
    (hs : stepAct s a = some (s', o))
    (hpc : (∃ j c k, act.pc = .jobStart j c k) ∨ (∃ j c k, act.pc = .jobAwait j c k)) : RunInv s' := by
  have hpca := pcAt_of ha
  rcases hpc with ⟨j, c, k, hpc⟩ | ⟨j, c, k, hpc⟩
  all_goals (
    have hold : (s.pcAt a).runningQ = some (j, c.q) := by rw [hpca, hpc]; rfl
    unfold stepAct at hs
    simp only [ha, hc, hpc, Option.isSome_none, Bool.false_eq_true, ↓reduceIte] at hs
    cases hjb : s.jobs[j]? with
    | none => simp [hjb] at hs
    | some jb =>
      simp only [hjb] at hs
      repeat' split at hs
      all_goals (try (simp at hs; done))
      all_goals (simp only [Option.some.injEq, Prod.mk.injEq] at hs; obtain ⟨rfl, _⟩ := hs)
      all_goals (first
        -- the closure is invoked: the flag is raised and the runner is inside the closure
        | (refine RunInv.raise hf h hold ?_ ?_ ?_ ?_ ?_
           · intro b; simp
           · intro i; simp
           · intro i
             rw [jobRan_setJob_of hjb]
             split <;> simp_all [Job.ran, JobKind.hasBody]
           · simp [Pc.runningQ]
           · simp [Pc.inBody])
        -- a future job is polled: nothing changes for the flag
        | (refine RunInv.frame h ?_ ?_ ?_ (Or.inr ⟨?_, ?_⟩)
           · intro b; first | rfl | simp
           · intro i; first | rfl | simp
           · intro i
             first
               | rfl
               | ((try simp only [jobRan_setGate, jobRan_setSf])
                  first
                    | rfl
                    | (rw [jobRan_setJob_of hjb]; split <;> simp_all [Job.ran, JobKind.hasBody, jobRan_of hjb]))
           · rw [hpca, hpc]; simp [Pc.runningQ, Ctx.q]
           · rw [hpca, hpc]; simp [Pc.inBody])))

theorem r_jobDrop {s s' : State} {a : Nat} {o : Obs} (hw : WfInv s) (h : RunInv s) (act : Act) (ha : s.acts[a]? = some act) (hc : act.child = none)
    (hs : stepAct s a = some (s', o))
    (hpc : (∃ j c k, act.pc = .jobDrop j c k) ∨ (∃ j c k, act.pc = .jobDropNotify j c k)) : RunInv s' := by
  have hpca := pcAt_of ha
  have hwk := hw a
  rcases hpc with ⟨j, c, k, hpc⟩ | ⟨j, c, k, hpc⟩
  all_goals (
    rw [hpca, hpc] at hwk
    simp only [Pc.callerOk] at hwk
    unfold stepAct at hs
    simp only [ha, hc, hpc, Option.isSome_none, Bool.false_eq_true, ↓reduceIte] at hs
    cases hjb : s.jobs[j]? with
    | none => simp [hjb] at hs
    | some jb =>
      simp only [hjb] at hs
      repeat' split at hs
      all_goals (try (simp at hs; done))
      all_goals (simp only [Option.some.injEq, Prod.mk.injEq] at hs; obtain ⟨rfl, _⟩ := hs)
      all_goals (
        refine RunInv.frame h (fun b => by first | rfl | simp) (fun i => by first | rfl | simp) (fun i => ?_) (Or.inl (by first | rfl | exact ctxReady_running hwk))
        first
          | rfl
          | (rw [jobRan_notify])
          | exact jobRan_notify _ _ i
          | exact jobRan_setJob_keep (v := { jb with ph := .done, ended := true }) hjb rfl i
          | (show (s.setJob j { jb with ph := .done, ended := true }).jobRan i = s.jobRan i
             exact jobRan_setJob_keep (v := { jb with ph := .done, ended := true }) hjb rfl i)))

theorem RunInv.spawn_goto {s X : State} {a : Nat} {n : Act} {pc' : Pc} (h : RunInv s) (hA : X.acts = s.acts ++ [n]) (hn : n.pc.runningQ = none)
    (hJ : X.jobs = s.jobs) (hQ : X.qs = s.qs) (hlt : a < s.acts.length)
    (hrun : pc'.runningQ = none ∨ (pc'.runningQ = (s.pcAt a).runningQ ∧ ((s.pcAt a).inBody = true → pc'.inBody = true))) : RunInv (X.goto a pc') := by
  have hX := RunInv.append_act h hA hn hJ hQ
  refine RunInv.frame hX (fun _ => rfl) (fun _ => rfl) (fun _ => rfl) ?_
  have e : X.pcAt a = s.pcAt a := by simp only [State.pcAt, hA, List.getElem?_append_left hlt]
  rw [e]; exact hrun

theorem r_stSpawn {s s' : State} {a : Nat} {o : Obs} (h : RunInv s) (act : Act) (ha : s.acts[a]? = some act) (hc : act.child = none)
    (m : Nat) (k : Pc) (hpc : act.pc = .stSpawn m k) (hs : stepAct s a = some (s', o)) : RunInv s' := by
  have hlt : a < s.acts.length := lt_of_getElem?_some ha
  have hpca := pcAt_of ha
  unfold stepAct at hs
  simp only [ha, hc, hpc, Option.isSome_none, Bool.false_eq_true, ↓reduceIte] at hs
  split at hs
  · simp at hs
  · split at hs
    · simp only [Option.some.injEq, Prod.mk.injEq] at hs; obtain ⟨rfl, _⟩ := hs
      exact RunInv.spawn_goto h rfl (by rfl) rfl rfl hlt (Or.inr ⟨by rw [hpca, hpc]; rfl, by rw [hpca, hpc]; exact id⟩)
    · simp only [Option.some.injEq, Prod.mk.injEq] at hs; obtain ⟨rfl, _⟩ := hs
      exact RunInv.frame h (fun c => rfl) (fun i => rfl) (fun i => rfl) (Or.inr ⟨by rw [hpca, hpc]; rfl, by rw [hpca, hpc]; exact id⟩)

theorem r_sbPrune {s s' : State} {a : Nat} {o : Obs} (h : RunInv s) (act : Act) (ha : s.acts[a]? = some act) (hc : act.child = none)
    (q : Nat) (hpc : act.pc = .sbPrune q) (hs : stepAct s a = some (s', o)) : RunInv s' := by
  unfold stepAct at hs
  simp only [ha, hc, hpc, Option.isSome_none, Bool.false_eq_true, ↓reduceIte] at hs
  split at hs
  · simp at hs
  next v hv =>
  simp only [Option.some.injEq, Prod.mk.injEq] at hs; obtain ⟨rfl, _⟩ := hs
  have h1 : RunInv (s.goto a Pc.ret) := RunInv.frame h (fun c => rfl) (fun i => rfl) (fun i => rfl) (Or.inl rfl)
  refine RunInv.of_eq h1 (fun b => rfl) ?_ (fun i => rfl)
  intro i
  have hv' : (s.goto a Pc.ret).qs[q]? = some v := by rw [qs_goto']; exact hv
  exact qjobs_setQ_state hv' _ _ i

theorem r_ptPop {s s' : State} {a : Nat} {o : Obs} (h : RunInv s) (act : Act) (ha : s.acts[a]? = some act) (hc : act.child = none)
    (p : Nat) (hpc : act.pc = .ptPop p) (hs : stepAct s a = some (s', o)) : RunInv s' := by
  unfold stepAct at hs
  simp only [ha, hc, hpc, Option.isSome_none, Bool.false_eq_true, ↓reduceIte] at hs
  repeat' split at hs
  all_goals (try (simp at hs; done))
  all_goals (simp only [Option.some.injEq, Prod.mk.injEq] at hs; obtain ⟨rfl, _⟩ := hs)
  all_goals (refine RunInv.frame h (fun c => rfl) ?_ (fun i => rfl) (Or.inl rfl))
  all_goals (first | (intro i; rfl) | (intro i; rw [qjobs_setHolder]; exact qjobs_setQ_state (s := { s with schedule := _ }) (by assumption) _ _ i) | (intro i; exact qjobs_setQ_state (s := { s with schedule := _ }) (by assumption) _ _ i))

set_option hygiene false in
macro "sir_side" : tactic => `(tactic| first
      | (intro b; (try simp only [pcAt_setQ, pcAt_setJob, pcAt_setHolder, pcAt_setWoken, pcAt_notify, pcAt_setPThr, pcAt_setFut, pcAt_setGate,
                             pcAt_takeReady, pcAt_dropReady, pcAt_setJobPh, pcAt_pushFront, pcAt_pushBack, pcAt_setQState, pcAt_dequeue]); first | done | rfl)
      | (intro i; (try simp only [qjobs_setJob, qjobs_setFut, qjobs_setGate, qjobs_setAct, qjobs_setSf, qjobs_setPThr, qjobs_setHolder, qjobs_takeReady,
                             qjobs_dropReady, qjobs_setWoken, qjobs_notify, qjobs_setQState, qjobs_setJobPh]);
           first | done | rfl | (apply qjobs_setQ_keep <;> first | assumption | rfl))
      | (intro i; (try simp only [jobRan_setQ, jobRan_setFut, jobRan_setGate, jobRan_setAct, jobRan_setSf, jobRan_setPThr, jobRan_setHolder, jobRan_takeReady,
                             jobRan_dropReady, jobRan_setWoken, jobRan_notify, jobRan_setQState, jobRan_pushBack, jobRan_pushFront, jobRan_setJobPh]);
           first | done | rfl | (apply jobRan_setJob_keep <;> first | assumption | rfl))
      | (rw [hpca, ‹act.pc = _›]; simp only [Pc.runningQ, Pc.inBody, runningQ_ctxPending, inBody_ctxPending, Ctx.q];
         first
         | (left; rfl)
         | (right; exact ⟨rfl, id⟩)
         | (right; exact ⟨rfl, fun h => by simp at h⟩)
         | (right; refine ⟨?_, fun h => by simp at h⟩; rename_i c _ _; cases c <;> rfl)
         | (right; refine ⟨?_, id⟩; rename_i c _ _; cases c <;> rfl)
         | simp))

set_option maxHeartbeats 4000000 in
set_option maxRecDepth 8000 in
theorem runInv_stepAct {s s' : State} {a : Nat} {o : Obs} (hh : HolderInv s) (hw : WfInv s) (hf : FullInv s) (h : RunInv s)
    (hs : stepAct s a = some (s', o)) : RunInv s' := by
  have hs0 := hs
  unfold stepAct at hs
  split at hs
  · simp at hs
  next act ha =>
  split at hs
  · simp at hs
  next hchild =>
  have hlt : a < s.acts.length := lt_of_getElem?_some ha
  have hpca := pcAt_of ha
  have hc : act.child = none := by
    cases hcc : act.child <;> simp_all
  split at hs
  all_goals (try (simp at hs; done))
  all_goals (try (first
      | exact r_dequeue hw h act ha hc hs0 (Or.inl ⟨_, _, by assumption⟩)
      | exact r_dequeue hw h act ha hc hs0 (Or.inr (Or.inl ⟨_, _, by assumption⟩))
      | exact r_dequeue hw h act ha hc hs0 (Or.inr (Or.inr ⟨_, _, by assumption⟩))
      | exact r_requeue h act ha hc hs0 (Or.inl ⟨_, _, _, by assumption⟩)
      | exact r_requeue h act ha hc hs0 (Or.inr ⟨_, _, _, _, by assumption⟩)
      | exact r_jobDrop hw h act ha hc hs0 (Or.inl ⟨_, _, _, by assumption⟩)
      | exact r_jobDrop hw h act ha hc hs0 (Or.inr ⟨_, _, _, by assumption⟩)
      | exact r_jobStart hf h act ha hc hs0 (Or.inl ⟨_, _, _, by assumption⟩)
      | exact r_jobStart hf h act ha hc hs0 (Or.inr ⟨_, _, _, by assumption⟩)
      | exact r_decide hf h act ha hc hs0 (Or.inl ⟨_, _, by assumption⟩)
      | exact r_decide hf h act ha hc hs0 (Or.inr ⟨_, _, by assumption⟩)
      | exact r_dsPush h act ha hc _ _ (by assumption) hs0
      | exact r_sdPush hh h act ha hc _ _ (by assumption) hs0
      | exact r_sbPush h act ha hc _ _ (by assumption) hs0
      | exact r_stSpawn h act ha hc _ _ (by assumption) hs0
      | exact r_sbPrune h act ha hc _ (by assumption) hs0
      | exact r_ptPop h act ha hc _ (by assumption) hs0))
  all_goals (try dsimp only at hs)
  all_goals (repeat' split at hs)
  all_goals (try (simp at hs; done))
  all_goals (try (simp only [Option.some.injEq, Prod.mk.injEq] at hs; obtain ⟨rfl, _⟩ := hs))
  all_goals (first
      | ((refine RunInv.frame h ?_ ?_ ?_ ?_) <;> sir_side)
      | ((refine RunInv.frame_setAct h ?_ ?_ ?_ ?_) <;> sir_side)
      | skip)

end Desync
