import DesyncModel.Inv.Holder

namespace Desync
open Gen

theorem hpc_goto {s X : State} {a : Nat} {pc' : Pc}
    (hX : ∀ b q, (X.pcAt b).holds q = (s.pcAt b).holds q) (ha : a < X.acts.length) :
    ∀ b q, ((X.goto a pc').pcAt b).holds q = if a = b then pc'.holds q else (s.pcAt b).holds q := by
  intro b q
  rw [pcAt_goto]
  by_cases hab : a = b
  · subst hab; simp [ha]
  · simp [hab, hX]

theorem pcAt_of {s : State} {a : Nat} {act : Act} (ha : s.acts[a]? = some act) : s.pcAt a = act.pc := by
  simp [State.pcAt, ha]

/-- table facts used below: a table applied by a non-holder never takes a queue out of the held states -/
theorem wakeQueue_held (st : QState) : st.held = true → (wakeQueue st).1.held = true := by
  cases st <;> simp [wakeQueue, QState.held]
theorem wakeThread_held (st : QState) : st.held = true → (wakeThread st).held = true := by
  cases st <;> simp [wakeThread, QState.held]
theorem desyncPush_held (st : QState) : st.held = true → (desyncPush st).1.held = true := by
  cases st <;> simp [desyncPush, QState.held]
theorem reschedule_held (st : QState) (e : Bool) : st.held = true → (reschedule st e).1.held = true := by
  cases st <;> cases e <;> simp [reschedule, QState.held]

end Desync
