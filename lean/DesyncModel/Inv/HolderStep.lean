/-
The holder invariant is preserved by every internal step (`stepAct`).
-/
import DesyncModel.Inv.HolderLemmas

namespace Desync
open Gen

theorem t_pdRequeue {s s' : State} {a : Nat} {o : Obs} (h : HolderInv s) (act : Act) (ha : s.acts[a]? = some act) (hc : act.child = none) (p q j : Nat)
    (hpc : act.pc = .pdRequeue p q j) (hs : stepAct s a = some (s', o)) : HolderInv s' := by
  have hlt : a < s.acts.length := lt_of_getElem?_some ha
  have hpca := pcAt_of ha
  unfold stepAct at hs
  simp only [ha, hc, hpc, Option.isSome_none, Bool.false_eq_true, ↓reduceIte] at hs
  simp only [Option.some.injEq, Prod.mk.injEq] at hs; obtain ⟨rfl, _⟩ := hs
  rw [goto_eq_setAct (act := act) _ (by simpa using ha)]
  refine HolderInv.keep h (hpc_setAct ?_ ?_) ?_ ?_ ?_ ?_
  · intro b q; simp
  · simpa using hlt
  · simp
  · simp
  · intro q; rw [hpca]; simp [*, Pc.holds]
  · exact StatesOk.of_qs_eq (Y := s.pushFront q j) (by simp) (pushFront_statesOk _ _ _)

theorem t_sdPush {s s' : State} {a : Nat} {o : Obs} (h : HolderInv s) (act : Act) (ha : s.acts[a]? = some act) (hc : act.child = none) (q : Nat) (b : Body)
    (hpc : act.pc = .sdPush q b) (hs : stepAct s a = some (s', o)) : HolderInv s' := by
  have hlt : a < s.acts.length := lt_of_getElem?_some ha
  have hpca := pcAt_of ha
  unfold stepAct at hs
  simp only [ha, hc, hpc, Option.isSome_none, Bool.false_eq_true, ↓reduceIte] at hs
  simp only [Option.some.injEq, Prod.mk.injEq] at hs; obtain ⟨rfl, _⟩ := hs
  rw [goto_eq_setAct (act := act) _ (by simpa [State.newJob] using ha)]
  refine HolderInv.keep h (hpc_setAct ?_ ?_) ?_ ?_ ?_ ?_
  · intro b q; simp [State.newJob, State.pcAt]
  · simpa [State.newJob] using hlt
  · simp [State.newJob]
  · simp [State.newJob]
  · intro q; rw [hpca]; simp [*, Pc.holds]
  · exact StatesOk.of_qs_eq (Y := s.pushBack q s.jobs.length) (by simp only [State.newJob, State.pushBack, qs_setAct]; split <;> rfl) (pushBack_statesOk _ _ _)

theorem t_dqDequeue {s s' : State} {a : Nat} {o : Obs} (h : HolderInv s) (act : Act) (ha : s.acts[a]? = some act) (hc : act.child = none) (f q : Nat)
    (hpc : act.pc = .dqDequeue f q) (hs : stepAct s a = some (s', o)) : HolderInv s' := by
  have hlt : a < s.acts.length := lt_of_getElem?_some ha
  have hpca := pcAt_of ha
  unfold stepAct at hs
  simp only [ha, hc, hpc, Option.isSome_none, Bool.false_eq_true, ↓reduceIte] at hs
  split at hs <;>
  · simp only [Option.some.injEq, Prod.mk.injEq] at hs; obtain ⟨rfl, _⟩ := hs
    rw [goto_eq_setAct (act := act) _ (by simpa [dequeue_acts] using ha)]
    refine HolderInv.keep h (hpc_setAct ?_ ?_) ?_ ?_ ?_ ?_
    · intro b q; simp [State.pcAt, dequeue_acts]
    · simpa [dequeue_acts] using hlt
    · simp [dequeue_holder]
    · simp [dequeue_qs_length]
    · intro q; rw [hpca]; simp [*, Pc.holds]
    · exact StatesOk.of_qs_eq (Y := (s.dequeue q a).1) (by simp) (dequeue_statesOk _ _ _)

theorem t_dqRequeue {s s' : State} {a : Nat} {o : Obs} (h : HolderInv s) (act : Act) (ha : s.acts[a]? = some act) (hc : act.child = none) (f j l q : Nat)
    (hpc : act.pc = .dqRequeue f j l q) (hs : stepAct s a = some (s', o)) : HolderInv s' := by
  have hlt : a < s.acts.length := lt_of_getElem?_some ha
  have hpca := pcAt_of ha
  unfold stepAct at hs
  simp only [ha, hc, hpc, Option.isSome_none, Bool.false_eq_true, ↓reduceIte] at hs
  simp only [Option.some.injEq, Prod.mk.injEq] at hs; obtain ⟨rfl, _⟩ := hs
  rw [goto_eq_setAct (act := act) _ (by simpa using ha)]
  refine HolderInv.keep h (hpc_setAct ?_ ?_) ?_ ?_ ?_ ?_
  · intro b q; simp
  · simpa using hlt
  · simp
  · simp
  · intro q; rw [hpca]; simp [*, Pc.holds]
  · exact StatesOk.of_qs_eq (Y := s.pushFront q j) (by simp) (pushFront_statesOk _ _ _)


set_option hygiene false in
macro "hold_side" : tactic => `(tactic| first
      | (simpa [dequeue_acts, State.newJob] using hlt)
      | (simp [State.newJob]; omega)
      | (apply StatesOk.refl'; simp [State.newJob]; done)
      | (exact dequeue_statesOk _ _ _)
      | (exact StatesOk.of_qs_eq rfl (dequeue_statesOk _ _ _))
      | (refine StatesOk.of_qs_eq ?_ (pushFront_statesOk s _ _); (first | rfl | (simp; rfl)))
      | (refine StatesOk.of_qs_eq (Y := (s.newJob _ _).1.pushBack _ _) ?_ (StatesOk.of_qs_eq (Y := s.pushBack _ _) ?_ (pushBack_statesOk s _ _)) <;> (first | rfl | (simp [State.newJob, State.pushBack]; done)))
      | (exact holds_pcAt_append rfl (by intro q; simp [Pc.holds]))
      | (refine StatesOk.setQ (by assumption) rfl ?_; first | exact id | exact wakeQueue_held _ | exact futureDrop_held _ _ | exact wakeThread_held _ | exact desyncPush_held _ | exact reschedule_held _ _ | exact syncDecide_held _ _ | exact trySync_held _ _ | exact claim_held _ | exact nextToRun_held _ | exact pollDecide_held _ _ | exact runOnePending_held _ | (exact drainExit_held _ _ (by simp_all)) | (exact drainPending_held _ (by simp_all)))
      | (refine StatesOk.setQ (by assumption) (by simp [State.setQ, State.newJob, State.pushBack, State.pushFront, *]) ?_; exact id)
      | (intro b q; rfl)
      | (intro b q; simp [State.newJob]; done)
      | (intro q; rw [hpca]; simp [*, Pc.holds, ctxHolds, gotHolds]; done)
      | (intro q; rw [hpca]; simp [*, holds_ctxPending, holds_ctxReady, holds_jobStart, holds_jobAwait, holds_jobBodyDone, holds_jobEnd, holds_jobSignal, holds_jobSigDrop, holds_jobDrop, holds_jobDropNotify]; done)
      | (intro q; rw [hpca]; rename_i c _ _ ; cases c <;> simp [*, Pc.holds, ctxHolds]; done)
      | (simp [dequeue_holder, dequeue_qs_length, State.newJob, State.setQ]; done)
      | (simp [State.newJob]; omega))

set_option hygiene false in
macro "acq_side" : tactic => `(tactic| first
      | (exact (syncDecide_imm _ _ (by assumption)).1) | (exact (syncDecide_imm _ _ (by assumption)).2)
      | (exact (syncDecide_drain _ _ (by assumption)).1) | (exact (syncDecide_drain _ _ (by assumption)).2)
      | (exact (trySync_imm _ _ (by assumption)).1) | (exact (trySync_imm _ _ (by assumption)).2)
      | (exact (claim_true _ (by assumption)).1) | (exact (claim_true _ (by assumption)).2)
      | (exact (nextToRun_true _ (by assumption)).1) | (exact (nextToRun_true _ (by assumption)).2)
      | (exact (pollDecide_drain _ _ (by assumption)).1) | (exact (pollDecide_drain _ _ (by assumption)).2)
      | (simp [qs_setQState']; done)
      | (simpa [dequeue_acts, State.newJob] using hlt)
      | (intro b q; rfl)
      | (intro b q; simp [State.newJob]; done)
      | (intro q; simp [*, Pc.holds, gotHolds]; done)
      | (simp; done))


set_option maxHeartbeats 4000000 in
set_option maxRecDepth 8000 in
/-- **I_runRight is inductive for internal steps**: every step of every activity preserves the holder invariant. -/
theorem holderInv_stepAct {s s' : State} {a : Nat} {o : Obs} (h : HolderInv s)
    (hs : stepAct s a = some (s', o)) : HolderInv s' := by
  have hs0 := hs
  unfold stepAct at hs
  split at hs
  · simp at hs
  next act ha =>
  split at hs
  · simp at hs
  next hchild =>
  have hc : act.child = none := by
    cases hcc : act.child <;> simp_all
  have hlt : a < s.acts.length := lt_of_getElem?_some ha
  have hpca := pcAt_of ha
  split at hs
  all_goals (try (simp at hs; done))
  all_goals (try (first
      | exact t_pdRequeue h act ha hc _ _ _ (by assumption) hs0
      | exact t_dqRequeue h act ha hc _ _ _ _ (by assumption) hs0
      | exact t_sdPush h act ha hc _ _ (by assumption) hs0
      | exact t_dqDequeue h act ha hc _ _ (by assumption) hs0))
  all_goals (try dsimp only at hs)
  all_goals (repeat' split at hs)
  all_goals (try (simp at hs; done))
  all_goals (simp only [Option.some.injEq, Prod.mk.injEq] at hs; obtain ⟨rfl, _⟩ := hs)
  all_goals (try rw [goto_eq_setAct (act := act) _ (by simpa [dequeue_acts, State.newJob, List.getElem?_append_left hlt] using ha)])
  all_goals (first
      | ((refine HolderInv.keep h (hpc_setAct ?_ ?_) ?_ ?_ ?_ ?_) <;> hold_side)
      | ((refine HolderInv.keep h (hpc_goto ?_ ?_) ?_ ?_ ?_ ?_) <;> hold_side)
      | ((refine HolderInv.acquire h ha (by assumption) ?_ ?_ ?_ ?_ ?_ rfl rfl ?_) <;> acq_side)
      | ((refine HolderInv.release h ha ?_ ?_ ?_ ?_ rfl rfl) <;> acq_side)
      | ((refine HolderInv.release_idle h ha ?_ ?_ ?_ ?_ ?_ ?_) <;> acq_side))

end Desync
