/-
I_watch: a queue on the schedule is never left without somebody who will look at the schedule.
-/
import DesyncModel.Inv.Watch

namespace Desync
open Gen

/-- pool thread `p` is busy and its activity has not (yet) found the schedule empty: it will look at the schedule again
before it goes to sleep (and if it is asleep it has a message waiting: `ThrInv.restOk`) -/
def Watching (s : State) (p : Nat) : Prop :=
  ∃ pt w, s.pthreads[p]? = some pt ∧ pt.busy = true ∧ s.po w = some p ∧ (s.cl w).gave = false

/-- a `schedule_thread` call under way that can still be relied on: it has not started its scan, or every thread it has
passed so far is watching, or it is about to spawn and every thread of the vector is watching -/
def GoodSt (s : State) (a : Nat) : Prop :=
  match s.cl a with
  | .st .reap | .st .scanLock | .st .spawnRel => True
  | .st (.scan i) | .st (.scanHeld i) => ∀ j p, j < i → s.threadsVec[j]? = some p → Watching s p
  | .st .readMax | .st (.spawn _) => ∀ p, p ∈ s.threadsVec → Watching s p
  | _ => False

def SchedW (s : State) : Prop := s.schedule ≠ [] → (∃ p, Watching s p) ∨ (∃ a, GoodSt s a)

theorem watch_keep {s X : State} {p : Nat} (hw : Watching s p)
    (hpth : ∀ pt : PThr, s.pthreads[p]? = some pt → pt.busy = true → ∃ pt' : PThr, X.pthreads[p]? = some pt' ∧ pt'.busy = true)
    (hact : ∀ w, s.po w = some p → (s.cl w).gave = false → X.po w = some p ∧ (X.cl w).gave = false) : Watching X p := by
  obtain ⟨pt, w, h1, h2, h3, h4⟩ := hw
  obtain ⟨pt', h5, h6⟩ := hpth pt h1 h2
  exact ⟨pt', w, h5, h6, (hact w h3 h4).1, (hact w h3 h4).2⟩

theorem pth_busy_of_eq {s X : State} (h : X.pthreads = s.pthreads) (p : Nat) :
    ∀ pt : PThr, s.pthreads[p]? = some pt → pt.busy = true → ∃ pt' : PThr, X.pthreads[p]? = some pt' ∧ pt'.busy = true :=
  fun pt h1 h2 => ⟨pt, by rw [h]; exact h1, h2⟩

theorem pth_busy_of_set {s X : State} {p0 : Nat} {pt0 v : PThr} (hX : X.pthreads = s.pthreads.set p0 v) (h0 : s.pthreads[p0]? = some pt0)
    (hv : pt0.busy = true → v.busy = true) (p : Nat) :
    ∀ pt : PThr, s.pthreads[p]? = some pt → pt.busy = true → ∃ pt' : PThr, X.pthreads[p]? = some pt' ∧ pt'.busy = true := by
  intro pt h1 h2
  rw [pth_set_lookup hX h0 p]
  by_cases hp : p = p0
  · subst hp
    simp only [↓reduceIte]
    rw [h0] at h1
    exact ⟨v, rfl, hv (by rw [Option.some.inj h1]; exact h2)⟩
  · simp only [hp, ↓reduceIte]; exact ⟨pt, h1, h2⟩

/-- the activities: the mover stays the thread it was and does not give up; the others do not move -/
theorem act_keep {s X : State} {a p : Nat} (hoth : ∀ b, b ≠ a → X.pcAt b = s.pcAt b) (hpo : X.po a = s.po a)
    (hg : (s.cl a).gave = false → (X.cl a).gave = false) : ∀ w, s.po w = some p → (s.cl w).gave = false → X.po w = some p ∧ (X.cl w).gave = false := by
  intro w h1 h2
  by_cases hwa : w = a
  · subst hwa; exact ⟨by rw [hpo]; exact h1, hg h2⟩
  · simp only [State.po, State.cl, hoth w hwa]; exact ⟨h1, h2⟩

set_option hygiene false in
macro "w_gave" : tactic => `(tactic| first
  | (intro hg; rw [hc]; exact hg)
  | (intro hg; simp_all [PCls.gave]; done)
  | (intro hg; w_plain <;> simp_all [PCls.gave]; done))

/-- Lemma A: a watching thread keeps watching, unless it has just found the schedule empty -/
theorem watch_pstep {s X : State} {a p : Nat} (hu : PoInv s) (ht : ThrInv s) (hp : PStep s a X) (hw : Watching s p) :
    Watching X p ∨ X.schedule = [] := by
  cases hp
  case neutral hb hc hX => exact Or.inl (watch_keep hw (pth_busy_of_eq hX.1 p) (act_keep hb.oth hb.po (by w_gave)))
  case reap hb hc hl vec hsub hX hc' => exact Or.inl (watch_keep hw (pth_busy_of_eq hX.1 p) (act_keep hb.oth hb.po (by w_gave)))
  case scanLock hb hc hl hX hc' => exact Or.inl (watch_keep hw (pth_busy_of_eq hX.1 p) (act_keep hb.oth hb.po (by w_gave)))
  case scanEnd i hb hc hv hX hc' => exact Or.inl (watch_keep hw (pth_busy_of_eq hX.1 p) (act_keep hb.oth hb.po (by w_gave)))
  case scanAcq i p0 pt hb hc hv hp hl hX hc' => exact Or.inl (watch_keep hw (pth_busy_of_set hX.1 hp id p) (act_keep hb.oth hb.po (by w_gave)))
  case scanBusy i p0 pt hb hc hv hp hbusy hX hc' => exact Or.inl (watch_keep hw (pth_busy_of_set hX.1 hp id p) (act_keep hb.oth hb.po (by w_gave)))
  case scanSend i p0 pt hb hc hv hp hbusy hX hc' => exact Or.inl (watch_keep hw (pth_busy_of_set hX.1 hp (fun _ => rfl) p) (act_keep hb.oth hb.po (by w_gave)))
  case scanRel i p0 f pt hb hc hv hp hX hc' => exact Or.inl (watch_keep hw (pth_busy_of_set hX.1 hp id p) (act_keep hb.oth hb.po (by w_gave)))
  case scanUnlock f hb hc hX hc' => exact Or.inl (watch_keep hw (pth_busy_of_eq hX.1 p) (act_keep hb.oth hb.po (by w_gave)))
  case readMax hb hc hX hc' => exact Or.inl (watch_keep hw (pth_busy_of_eq hX.1 p) (act_keep hb.oth hb.po (by w_gave)))
  case spawnYes m hc hl hlt hoth hnew hpo ha hX hc' =>
    left
    refine watch_keep hw ?_ ?_
    · intro pt h1 h2
      exact ⟨pt, by rw [hX.1, List.getElem?_append_left (lt_of_getElem?_some h1)]; exact h1, h2⟩
    · intro w h1 h2
      have hwn : w ≠ s.acts.length := fun e => by rw [e] at h1; simp [State.po, State.pcAt, Pc.poolOf] at h1
      by_cases hwa : w = a
      · subst hwa; exact ⟨by rw [hpo]; exact h1, by rw [hc']; rfl⟩
      · simp only [State.po, State.cl, hoth w hwa hwn]; exact ⟨h1, h2⟩
  case spawnNo m hb hc hge hX hc' => exact Or.inl (watch_keep hw (pth_busy_of_eq hX.1 p) (act_keep hb.oth hb.po (by w_gave)))
  case spawnRel hb hc hX hc' => exact Or.inl (watch_keep hw (pth_busy_of_eq hX.1 p) (act_keep hb.oth hb.po (by w_gave)))
  case push q hb hc hX hc' => exact Or.inl (watch_keep hw (pth_busy_of_eq hX.1 p) (act_keep hb.oth hb.po (by w_gave)))
  case claim f hb hc hX => exact Or.inl (watch_keep hw (pth_busy_of_eq hX.1 p) (act_keep hb.oth hb.po (by w_gave)))
  case ptRecv p0 hb hc hX hc' => exact Or.inl (watch_keep hw (pth_busy_of_eq hX.1 p) (act_keep hb.oth hb.po (by w_gave)))
  case ptGot p0 pt hb hc hpo hp hm hX hc' => exact Or.inl (watch_keep hw (pth_busy_of_set hX.1 hp id p) (act_keep hb.oth hb.po (by w_gave)))
  case ptExit p0 pt hoth hc hpo hp hm hh hX hc' hpo' =>
    left
    obtain ⟨pt1, w, h1, h2, h3, h4⟩ := hw
    have hpp : p ≠ p0 := fun e => by
      subst e
      rw [hp] at h1
      have := ht.restOk a p pt hpo hp (by rw [Option.some.inj h1]; exact h2) (by rw [hc]; rfl)
      omega
    have hwa : w ≠ a := fun e => by subst e; rw [hpo] at h3; exact hpp (Option.some.inj h3).symm
    refine ⟨pt1, w, ?_, h2, ?_, ?_⟩
    · rw [pth_set_lookup hX.1 hp p]; simp only [hpp, ↓reduceIte]; exact h1
    · simp only [State.po, hoth w hwa]; exact h3
    · simp only [State.cl, hoth w hwa]; exact h4
  case ptLockBusy p0 pt hb hc hp hl hX hc' => exact Or.inl (watch_keep hw (pth_busy_of_set hX.1 hp id p) (act_keep hb.oth hb.po (by w_gave)))
  case ptLockSched p0 hb hc hX hc' => exact Or.inl (watch_keep hw (pth_busy_of_eq hX.1 p) (act_keep hb.oth hb.po (by w_gave)))
  case popEmpty p0 hb hc he hX hc' => exact Or.inr (by rw [hX.2.2.2.1]; exact he)
  case popTake p0 q rest hb hc he hX hc' => exact Or.inl (watch_keep hw (pth_busy_of_eq hX.1 p) (act_keep hb.oth hb.po (by w_gave)))
  case popSkip p0 q rest hb hc he hX hc' => exact Or.inl (watch_keep hw (pth_busy_of_eq hX.1 p) (act_keep hb.oth hb.po (by w_gave)))
  case unlockSched p0 g hb hc hX hc' =>
    left
    refine watch_keep hw (pth_busy_of_eq hX.1 p) (act_keep hb.oth hb.po ?_)
    intro hg; rw [hc'] ; rw [hc] at hg; cases g <;> simp_all [PCls.gave]
  case unlockBusySome p0 q pt hb hc hp hX hc' => exact Or.inl (watch_keep hw (pth_busy_of_set hX.1 hp id p) (act_keep hb.oth hb.po (by w_gave)))
  case unlockBusyNone p0 pt hb hc hpo hp hX hc' =>
    left
    obtain ⟨pt1, w, h1, h2, h3, h4⟩ := hw
    have hpp : p ≠ p0 := fun e => by
      subst e
      have := hu.uniq w a p h3 hpo
      subst this
      rw [hc] at h4; simp [PCls.gave] at h4
    have hwa : w ≠ a := fun e => by subst e; rw [hpo] at h3; exact hpp (Option.some.inj h3).symm
    refine ⟨pt1, w, ?_, h2, ?_, ?_⟩
    · rw [pth_set_lookup hX.1 hp p]; simp only [hpp, ↓reduceIte]; exact h1
    · simp only [State.po, hb.oth w hwa]; exact h3
    · simp only [State.cl, hb.oth w hwa]; exact h4
  case drainEnd p0 hb hc hX hc' => exact Or.inl (watch_keep hw (pth_busy_of_eq hX.1 p) (act_keep hb.oth hb.po (by w_gave)))
  case smSet n hb hc hX hc' => exact Or.inl (watch_keep hw (pth_busy_of_eq hX.1 p) (act_keep hb.oth hb.po (by w_gave)))
  case dpRead hb hc hX hc' => exact Or.inl (watch_keep hw (pth_busy_of_eq hX.1 p) (act_keep hb.oth hb.po (by w_gave)))
  case dpLock m hb hc hl hX hc' => exact Or.inl (watch_keep hw (pth_busy_of_eq hX.1 p) (act_keep hb.oth hb.po (by w_gave)))
  case dpHangPop m p0 g pt hb hc hv hp hX hc' => exact Or.inl (watch_keep hw (pth_busy_of_set hX.1 hp id p) (act_keep hb.oth hb.po (by w_gave)))
  case dpHangEnd m g hb hc hX hc' => exact Or.inl (watch_keep hw (pth_busy_of_eq hX.1 p) (act_keep hb.oth hb.po (by w_gave)))

/-! ### summaries of `PStep` used below -/

theorem vec_same_of_locked {s X : State} {a b : Nat} (ht : TlInv s) (hp : PStep s a X) (hba : b ≠ a) (hl : s.threadsLock = some b) :
    X.threadsVec = s.threadsVec := by
  cases hp
  case reap hb hc hl' vec hsub hX hc' => rw [hl'] at hl; cases hl
  case spawnYes m hc hl' hlt hoth hnew hpo ha hX hc' => rw [hl'] at hl; cases hl
  case dpHangPop m p g pt hb hc hv hp hX hc' =>
    have := ht a (by rw [hc]; rfl)
    rw [hl] at this
    exact absurd (Option.some.inj this) hba
  all_goals (first | exact (‹PoolSame s X›).2.1 | exact (‹PoolIs X _ _ _ _ _›).2.1)

theorem vec_sub_or_spawn {s X : State} {a : Nat} (hp : PStep s a X) : X.threadsVec.Sublist s.threadsVec ∨ X.cl a = .st .spawnRel := by
  cases hp
  case reap hb hc hl' vec hsub hX hc' => left; rw [hX.2.1]; exact hsub
  case spawnYes m hc hl' hlt hoth hnew hpo ha hX hc' => exact Or.inr hc'
  case dpHangPop m p g pt hb hc hv hp hX hc' => left; rw [hX.2.1]; exact List.dropLast_sublist _
  all_goals (left; first | exact sub_of_eq (‹PoolSame s X›).2.1 | exact sub_of_eq (‹PoolIs X _ _ _ _ _›).2.1)

theorem sched_grows_only_by_push {s X : State} {a : Nat} (hp : PStep s a X) (hs : s.schedule = []) (hne : X.schedule ≠ []) : X.cl a = .st .reap := by
  cases hp
  case push q hb hc hX hc' => exact hc'
  case claim f hb hc hX => exfalso; apply hne; rw [hX.2.2.2.1, hs]; rfl
  case popTake p0 q rest hb hc he hX hc' => rw [hs] at he; cases he
  case popSkip p0 q rest hb hc he hX hc' => rw [hs] at he; cases he
  all_goals (exfalso; apply hne; first | (rw [(‹PoolSame s X›).2.2.2.1]; exact hs) | (rw [(‹PoolIs X _ _ _ _ _›).2.2.2.1]; exact hs))

theorem good_ne_neutral {s : State} {b : Nat} (hg : GoodSt s b) : s.cl b ≠ .neutral := by
  intro h; simp [GoodSt, h] at hg

theorem cl_oth_of_good {s X : State} {a b : Nat} (hp : PStep s a X) (hba : b ≠ a) (hg : GoodSt s b) : X.cl b = s.cl b := by
  cases hp
  case spawnYes m hc hl' hlt hoth hnew hpo ha hX hc' =>
    have hbn : b ≠ s.acts.length := fun e => by
      apply good_ne_neutral hg
      rw [e]; simp [State.cl, State.pcAt, Pc.cls]
    simp only [State.cl, hoth b hba hbn]
  case ptExit p0 pt hoth hc hpo hp hm hh hX hc' hpo' => simp only [State.cl, hoth b hba]
  all_goals exact (‹Base s a X›).cl b hba

/-- a good `schedule_thread` call stays good while the vector and its class stay and watching threads keep watching -/
theorem good_transfer {s X : State} {b : Nat} (hcl : X.cl b = s.cl b) (hvec : X.threadsVec = s.threadsVec)
    (keepW : ∀ p, Watching s p → Watching X p) (hg : GoodSt s b) : GoodSt X b := by
  unfold GoodSt at hg ⊢
  rw [hcl, hvec]
  split <;> simp_all
  all_goals first
    | (intro j p hj hp; exact keepW p (hg j p hj hp))
    | (intro p hp; exact keepW p (hg p hp))

theorem gave_cases (c : PCls) (h : c.gave = true) : ∃ p ph, c = .pt p ph ∧ c.ownBL = some p := by
  cases c with
  | pt p ph =>
    cases ph with
    | unlockBusy g => exact ⟨p, _, rfl, rfl⟩
    | unlockSched g => exact ⟨p, _, rfl, rfl⟩
    | _ => simp [PCls.gave] at h
  | _ => simp [PCls.gave] at h

/-- the thread whose busy flag a scan holds, if it is busy, is watching: its activity cannot be in the window in which it
has given up, because it holds its own busy flag there -/
theorem watching_of_scanned {s : State} {a i p : Nat} {pt : PThr} (hbl : BlInv s) (hth : ThrInv s)
    (hc : (s.cl a).scanIdx = some i) (hv : s.threadsVec[i]? = some p) (hp : s.pthreads[p]? = some pt) (hb : pt.busy = true) : Watching s p := by
  obtain ⟨w, hw⟩ := hth.exist p pt hp hb
  refine ⟨pt, w, hp, hb, hw, ?_⟩
  cases hg : (s.cl w).gave with
  | false => rfl
  | true =>
    exfalso
    obtain ⟨p', ph, h1, h2⟩ := gave_cases _ hg
    have h3 : s.po w = some p' := cls_poolOf _ p' ph h1
    rw [hw] at h3
    have hpp : p = p' := Option.some.inj h3
    subst hpp
    have h4 := hbl.own w p (Or.inr h2)
    have h5 := hbl.own a p (Or.inl ⟨i, hc, hv⟩)
    rw [h4] at h5
    have hwa : w = a := Option.some.inj h5
    subst hwa
    rw [h1] at hc; simp [PCls.scanIdx] at hc

theorem not_gave_of_scanned {s : State} {a i p w : Nat} (hbl : BlInv s)
    (hc : (s.cl a).scanIdx = some i) (hv : s.threadsVec[i]? = some p) (hw : s.po w = some p) : (s.cl w).gave = false := by
  cases hg : (s.cl w).gave with
  | false => rfl
  | true =>
    exfalso
    obtain ⟨p', ph, h1, h2⟩ := gave_cases _ hg
    have h3 : s.po w = some p' := cls_poolOf _ p' ph h1
    rw [hw] at h3
    have hpp : p = p' := Option.some.inj h3
    subst hpp
    have h4 := hbl.own w p (Or.inr h2)
    have h5 := hbl.own a p (Or.inl ⟨i, hc, hv⟩)
    rw [h4] at h5
    have hwa : w = a := Option.some.inj h5
    subst hwa
    rw [h1] at hc; simp [PCls.scanIdx] at hc

/-- Lemma B: another activity's good `schedule_thread` call stays good, or the mover has just spawned a thread (and is good) -/
theorem good_oth_pstep {s X : State} {a b : Nat} (ht : TlInv s) (hp : PStep s a X) (hba : b ≠ a)
    (keepW : ∀ p, Watching s p → Watching X p) (hg : GoodSt s b) : GoodSt X b ∨ GoodSt X a := by
  have hcl := cl_oth_of_good hp hba hg
  cases hcb : s.cl b with
  | st ph =>
    cases ph with
    | reap => left; simp [GoodSt, hcl, hcb]
    | scanLock => left; simp [GoodSt, hcl, hcb]
    | spawnRel => left; simp [GoodSt, hcl, hcb]
    | scan i =>
      left
      have hl := ht b (by rw [hcb]; rfl)
      exact good_transfer hcl (vec_same_of_locked ht hp hba hl) keepW hg
    | scanHeld i =>
      left
      have hl := ht b (by rw [hcb]; rfl)
      exact good_transfer hcl (vec_same_of_locked ht hp hba hl) keepW hg
    | scanRel i f => simp [GoodSt, hcb] at hg
    | scanUnlock f => simp [GoodSt, hcb] at hg
    | readMax =>
      rcases vec_sub_or_spawn hp with hsub | hsp
      · left
        simp only [GoodSt, hcb] at hg
        simp only [GoodSt, hcl, hcb]
        intro p hpm; exact keepW p (hg p (hsub.subset hpm))
      · right; simp [GoodSt, hsp]
    | spawn m =>
      rcases vec_sub_or_spawn hp with hsub | hsp
      · left
        simp only [GoodSt, hcb] at hg
        simp only [GoodSt, hcl, hcb]
        intro p hpm; exact keepW p (hg p (hsub.subset hpm))
      · right; simp [GoodSt, hsp]
  | neutral => simp [GoodSt, hcb] at hg
  | pt p ph => simp [GoodSt, hcb] at hg
  | smSet n => simp [GoodSt, hcb] at hg
  | dpLock m => simp [GoodSt, hcb] at hg
  | dpHang m g => simp [GoodSt, hcb] at hg

set_option hygiene false in
/-- the mover is not in `schedule_thread`, so it was not good -/
macro "not_good" : tactic => `(tactic| first
  | (exfalso; simp [GoodSt, hc] at hg; done)
  | (exfalso; w_plain <;> simp_all [GoodSt]; done))

/-- the mover's own good `schedule_thread` call: after its step it is still good, or it has found a watching thread -/
theorem good_self_pstep {s X : State} {a : Nat} (hbl : BlInv s) (hth : ThrInv s) (hnz : NzInv s) (hp : PStep s a X)
    (keepW : ∀ p, Watching s p → Watching X p) (hg : GoodSt s a) : (∃ p, Watching X p) ∨ GoodSt X a := by
  cases hp
  case neutral hb hc hX => exact Or.inr (good_transfer hc hX.2.1 keepW hg)
  case claim f hb hc hX => exact Or.inr (good_transfer hc hX.2.1 keepW hg)
  case reap hb hc hl vec hsub hX hc' => right; simp [GoodSt, hc']
  case scanLock hb hc hl hX hc' => right; simp [GoodSt, hc']
  case scanEnd i hb hc hv hX hc' =>
    right
    simp only [GoodSt, hc] at hg
    simp only [GoodSt, hc', hX.2.1]
    intro p hpm
    obtain ⟨j, hj⟩ := List.getElem?_of_mem hpm
    have hji : j < i := by
      have h1 := lt_of_getElem?_some hj
      have h2 : s.threadsVec.length ≤ i := by
        by_cases hlt : i < s.threadsVec.length
        · rw [List.getElem?_eq_getElem hlt] at hv; cases hv
        · omega
      omega
    exact keepW p (hg j p hji hj)
  case scanAcq i p pt hb hc hv hp hl hX hc' =>
    right
    simp only [GoodSt, hc] at hg
    simp only [GoodSt, hc', hX.2.1]
    intro j p' hj hp'; exact keepW p' (hg j p' hj hp')
  case scanBusy i p pt hb hc hv hp hbusy hX hc' =>
    right
    have hwp : Watching s p := watching_of_scanned hbl hth (by rw [hc]; rfl) hv hp hbusy
    simp only [GoodSt, hc] at hg
    simp only [GoodSt, hc', hX.2.1]
    intro j p' hj hp'
    by_cases hji : j = i
    · subst hji; rw [hv] at hp'; rw [← Option.some.inj hp']; exact keepW p hwp
    · exact keepW p' (hg j p' (by omega) hp')
  case scanSend i p pt hb hc hv hp hbusy hX hc' =>
    left
    obtain ⟨w, hw⟩ := hth.live p (mem_of_getElem?_some hv)
    have hng := not_gave_of_scanned hbl (a := a) (by rw [hc]; rfl) hv hw
    refine ⟨p, { pt with busy := true, mailbox := pt.mailbox + 1 }, w, ?_, rfl, ?_, ?_⟩
    · rw [pth_set_lookup hX.1 hp p]; simp
    · rw [po_all_of hb.oth hb.po]; exact hw
    · by_cases hwa : w = a
      · subst hwa; rw [hc']; rfl
      · simp only [State.cl, hb.oth w hwa]; exact hng
  case scanRel i p f pt hb hc hv hp hX hc' => not_good
  case scanUnlock f hb hc hX hc' => not_good
  case readMax hb hc hX hc' =>
    right
    simp only [GoodSt, hc] at hg
    simp only [GoodSt, hc', hX.2.1]
    intro p hpm; exact keepW p (hg p hpm)
  case spawnYes m hc hl hlt hoth hnew hpo ha hX hc' => right; simp [GoodSt, hc']
  case spawnNo m hb hc hge hX hc' =>
    left
    simp only [GoodSt, hc] at hg
    have hm : 1 ≤ m := by have := hnz.cls a; rw [hc] at this; simpa [PCls.nzOk] using this
    cases hvl : s.threadsVec with
    | nil => rw [hvl] at hge; simp at hge; omega
    | cons p rest => exact ⟨p, keepW p (hg p (by rw [hvl]; exact List.mem_cons_self))⟩
  case spawnRel hb hc hX hc' => right; simp [GoodSt, hc']
  case push q hb hc hX hc' => exfalso; rcases PCls.plain_cases _ hc with h1 | ⟨p1, h1⟩ <;> simp [GoodSt, h1] at hg
  case ptRecv p hb hc hX hc' => not_good
  case ptGot p pt hb hc hpo hp hm hX hc' => not_good
  case ptExit p pt hoth hc hpo hp hm hh hX hc' hpo' => not_good
  case ptLockBusy p pt hb hc hp hl hX hc' => not_good
  case ptLockSched p hb hc hX hc' => not_good
  case popEmpty p hb hc he hX hc' => not_good
  case popTake p q rest hb hc he hX hc' => not_good
  case popSkip p q rest hb hc he hX hc' => not_good
  case unlockSched p g hb hc hX hc' => not_good
  case unlockBusySome p q pt hb hc hp hX hc' => not_good
  case unlockBusyNone p pt hb hc hpo hp hX hc' => not_good
  case drainEnd p hb hc hX hc' => not_good
  case smSet n hb hc hX hc' => not_good
  case dpRead hb hc hX hc' => exfalso; rcases PCls.plain_cases _ hc with h1 | ⟨p1, h1⟩ <;> simp [GoodSt, h1] at hg
  case dpLock m hb hc hl hX hc' => not_good
  case dpHangPop m p g pt hb hc hv hp hX hc' => not_good
  case dpHangEnd m g hb hc hX hc' => not_good

/-- I_watch is preserved by every step of the abstract pool -/
theorem sched_pstep {s X : State} {a : Nat} (hu : PoInv s) (hth : ThrInv s) (htl : TlInv s) (hbl : BlInv s) (hnz : NzInv s)
    (hp : PStep s a X) (h : SchedW s) : SchedW X := by
  intro hne
  by_cases hs : s.schedule = []
  · right
    exact ⟨a, by simp [GoodSt, sched_grows_only_by_push hp hs hne]⟩
  · have keepW : ∀ p, Watching s p → Watching X p := fun p hw => (watch_pstep hu hth hp hw).resolve_right hne
    rcases h hs with ⟨p, hw⟩ | ⟨b, hg⟩
    · exact Or.inl ⟨p, keepW p hw⟩
    · by_cases hba : b = a
      · subst hba
        rcases good_self_pstep hbl hth hnz hp keepW hg with h1 | h1
        · exact Or.inl h1
        · exact Or.inr ⟨b, h1⟩
      · rcases good_oth_pstep htl hp hba keepW hg with h1 | h1
        · exact Or.inr ⟨b, h1⟩
        · exact Or.inr ⟨a, h1⟩

end Desync
