/-
The order invariant over abstract projections (on top of `JobInvF`): job ids are allocated in scheduling order, a
queue's list is increasing, the job in the hands of a runner is older than every queued job of its queue, a finished
job has ended, and a job has begun only if every older job of its queue has ended.

`B j`, `E j` = has job `j` begun / ended;   `N` = number of jobs created so far.
-/
import DesyncModel.Inv.JobAbs
namespace Desync
open Gen

structure OrderInvF (J : Nat → Option (Phase × Nat)) (Q : Nat → Option (List Nat)) (B E : Nat → Bool) (N : Nat) : Prop where
  bound : ∀ j pq, J j = some pq → j < N
  sorted : ∀ q l, Q q = some l → l.Pairwise (· < ·)
  heldFirst : ∀ j1 j2 a q, J j1 = some (.held a, q) → J j2 = some (.queued, q) → j1 < j2
  doneEnded : ∀ j q, J j = some (.done, q) → E j = true
  order : ∀ j1 j2 q p1 p2, j1 < j2 → J j1 = some (p1, q) → J j2 = some (p2, q) → B j2 = true → E j1 = true

/-- every job of queue `q` older than the held job `j` has ended -/
theorem OrderInvF.older_ended {R J Q O B E N} (hj : JobInvF R J Q O) (hx : HeldExcl J) (h : OrderInvF J Q B E N)
    {j a q : Nat} (hh : J j = some (.held a, q)) {j1 : Nat} {p1 : Phase} (hlt : j1 < j) (h1 : J j1 = some (p1, q)) : E j1 = true := by
  cases p1 with
  | queued => have := h.heldFirst j j1 a q hh h1; omega
  | held a' => have := hx j1 j a' a q h1 hh; omega
  | done => exact h.doneEnded j1 q h1

theorem OrderInvF.frameBE {R J Q O B E B' E' N} (hj : JobInvF R J Q O) (hx : HeldExcl J) (h : OrderInvF J Q B E N)
    (hB : ∀ i, B' i = true → B i = true ∨ ∃ a q, J i = some (.held a, q))
    (hE : ∀ i, E i = true → E' i = true) : OrderInvF J Q B' E' N := by
  refine ⟨h.bound, h.sorted, h.heldFirst, fun j q hd => hE j (h.doneEnded j q hd), ?_⟩
  intro j1 j2 q p1 p2 hlt h1 h2 hb
  apply hE
  rcases hB j2 hb with hb' | ⟨a, q', hh⟩
  · exact h.order j1 j2 q p1 p2 hlt h1 h2 hb'
  · rw [h2] at hh; simp at hh
    obtain ⟨rfl, rfl⟩ := hh
    exact h.older_ended hj hx h2 hlt h1

theorem OrderInvF.retire {R J J' Q O B E E' N} {a j q : Nat} (hj : JobInvF R J Q O) (h : OrderInvF J Q B E N)
    (hold : R a = some (j, q))
    (hJ : ∀ i, J' i = if i = j then some (.done, q) else J i)
    (hE : ∀ i, E' i = if i = j then true else E i) : OrderInvF J' Q B E' N := by
  have hja := hj.run1 a j q hold
  refine ⟨?_, h.sorted, ?_, ?_, ?_⟩
  · intro i pq hi
    rw [hJ] at hi
    split at hi
    · next e => rw [e]; exact h.bound j _ hja
    · exact h.bound i pq hi
  · intro j1 j2 a' q' hh hq
    rw [hJ] at hh hq
    split at hh
    · simp at hh
    · split at hq
      · simp at hq
      · exact h.heldFirst j1 j2 a' q' hh hq
  · intro i q' hd
    rw [hJ] at hd; rw [hE]
    split
    · rfl
    · next hne => simp only [hne, ↓reduceIte] at hd; exact h.doneEnded i q' hd
  · intro j1 j2 q' p1 p2 hlt h1 h2 hb
    rw [hE]
    split
    · rfl
    · next hne1 =>
      rw [hJ] at h1 h2
      simp only [hne1, ↓reduceIte] at h1
      split at h2
      · next e =>
        simp at h2
        rw [e] at hlt hb
        exact h.order j1 j q' p1 (.held a) hlt h1 (by rw [hja, h2.2]) hb
      · exact h.order j1 j2 q' p1 p2 hlt h1 h2 hb

theorem OrderInvF.requeue {R J J' Q Q' O B E N} {a j q : Nat} {l0 : List Nat} (hj : JobInvF R J Q O) (hx : HeldExcl J) (h : OrderInvF J Q B E N)
    (hold : R a = some (j, q)) (hq0 : Q q = some l0)
    (hJ : ∀ i, J' i = if i = j then some (.queued, q) else J i)
    (hQ : ∀ i, Q' i = if i = q then some (j :: l0) else Q i) : OrderInvF J' Q' B E N := by
  have hja := hj.run1 a j q hold
  refine ⟨?_, ?_, ?_, ?_, ?_⟩
  · intro i pq hi
    rw [hJ] at hi
    split at hi
    · next e => rw [e]; exact h.bound j _ hja
    · exact h.bound i pq hi
  · intro q' l hl
    rw [hQ] at hl
    split at hl
    · simp at hl; subst hl
      refine List.pairwise_cons.mpr ⟨?_, h.sorted q l0 hq0⟩
      intro x hx'
      exact h.heldFirst j x a q hja (hj.queued q l0 x hq0 hx')
    · exact h.sorted q' l hl
  · intro j1 j2 a' q' hh hq
    rw [hJ] at hh hq
    split at hh
    · simp at hh
    · next hne1 =>
      split at hq
      · next e =>
        simp at hq; subst hq
        exact absurd (hx j1 j a' a q hh hja) hne1
      · exact h.heldFirst j1 j2 a' q' hh hq
  · intro i q' hd
    rw [hJ] at hd
    split at hd
    · simp at hd
    · exact h.doneEnded i q' hd
  · intro j1 j2 q' p1 p2 hlt h1 h2 hb
    have e1 : ∃ p, J j1 = some (p, q') := by
      rw [hJ] at h1; split at h1
      · next e => simp at h1; exact ⟨.held a, by rw [e, hja, h1.2]⟩
      · exact ⟨p1, h1⟩
    have e2 : ∃ p, J j2 = some (p, q') := by
      rw [hJ] at h2; split at h2
      · next e => simp at h2; exact ⟨.held a, by rw [e, hja, h2.2]⟩
      · exact ⟨p2, h2⟩
    obtain ⟨p, hp1⟩ := e1
    obtain ⟨p', hp2⟩ := e2
    exact h.order j1 j2 q' p p' hlt hp1 hp2 hb

theorem OrderInvF.take {R J J' Q Q' O B E N} {a j q : Nat} {rest : List Nat} (hj : JobInvF R J Q O) (h : OrderInvF J Q B E N)
    (hhead : Q q = some (j :: rest))
    (hJ : ∀ i, J' i = if i = j then some (.held a, q) else J i)
    (hQ : ∀ i, Q' i = if i = q then some rest else Q i) : OrderInvF J' Q' B E N := by
  have hjq := hj.queued q _ j hhead (by simp)
  have hs := h.sorted q _ hhead
  refine ⟨?_, ?_, ?_, ?_, ?_⟩
  · intro i pq hi
    rw [hJ] at hi
    split at hi
    · next e => rw [e]; exact h.bound j _ hjq
    · exact h.bound i pq hi
  · intro q' l hl
    rw [hQ] at hl
    split at hl
    · simp at hl; subst hl; exact (List.pairwise_cons.mp hs).2
    · exact h.sorted q' l hl
  · intro j1 j2 a' q' hh hq
    rw [hJ] at hh hq
    split at hq
    · simp at hq
    · next hne2 =>
      split at hh
      · next e =>
        simp at hh
        obtain ⟨rfl, rfl⟩ := hh
        obtain ⟨l, hl, hm⟩ := hj.member j2 _ hq
        rw [hhead] at hl; simp at hl; subst hl
        rcases List.mem_cons.mp hm with e' | hm'
        · exact absurd e' hne2
        · rw [e]; exact (List.pairwise_cons.mp hs).1 j2 hm'
      · exact h.heldFirst j1 j2 a' q' hh hq
  · intro i q' hd
    rw [hJ] at hd
    split at hd
    · simp at hd
    · exact h.doneEnded i q' hd
  · intro j1 j2 q' p1 p2 hlt h1 h2 hb
    have e1 : ∃ p, J j1 = some (p, q') := by
      rw [hJ] at h1; split at h1
      · next e => simp at h1; exact ⟨.queued, by rw [e, hjq, h1.2]⟩
      · exact ⟨p1, h1⟩
    have e2 : ∃ p, J j2 = some (p, q') := by
      rw [hJ] at h2; split at h2
      · next e => simp at h2; exact ⟨.queued, by rw [e, hjq, h2.2]⟩
      · exact ⟨p2, h2⟩
    obtain ⟨p, hp1⟩ := e1
    obtain ⟨p', hp2⟩ := e2
    exact h.order j1 j2 q' p p' hlt hp1 hp2 hb

theorem OrderInvF.newHeld {J J' Q B B' E E' N} {a q : Nat} (h : OrderInvF J Q B E N)
    (hfresh : ∀ i, N ≤ i → J i = none) (hnoq : ∀ j, J j ≠ some (.queued, q)) (hnoh : ∀ j a', J j ≠ some (.held a', q))
    (hJ : ∀ i, J' i = if i = N then some (.held a, q) else J i)
    (hB : ∀ i, i ≠ N → B' i = B i) (hE : ∀ i, i ≠ N → E' i = E i) : OrderInvF J' Q B' E' (N + 1) := by
  have hNn : J N = none := hfresh N (Nat.le_refl _)
  refine ⟨?_, h.sorted, ?_, ?_, ?_⟩
  · intro i pq hi
    rw [hJ] at hi
    split at hi
    · next e => omega
    · have := h.bound i pq hi; omega
  · intro j1 j2 a' q' hh hq
    rw [hJ] at hh hq
    split at hq
    · simp at hq
    · split at hh
      · simp at hh; obtain ⟨rfl, rfl⟩ := hh; exact absurd hq (hnoq j2)
      · exact h.heldFirst j1 j2 a' q' hh hq
  · intro i q' hd
    rw [hJ] at hd
    split at hd
    · simp at hd
    · next hne => rw [hE i hne]; exact h.doneEnded i q' hd
  · intro j1 j2 q' p1 p2 hlt h1 h2 hb
    rw [hJ] at h1 h2
    have hne1 : j1 ≠ N := by
      intro e; rw [e] at hlt
      split at h2
      · next e2 => omega
      · have := h.bound j2 _ h2; omega
    simp only [hne1, ↓reduceIte] at h1
    rw [hE j1 hne1]
    split at h2
    · next e2 =>
      simp at h2
      -- every older job of q is finished: none is queued, none is held
      cases p1 with
      | queued => rw [← h2.2] at h1; exact absurd h1 (hnoq j1)
      | held a' => rw [← h2.2] at h1; exact absurd h1 (hnoh j1 a')
      | done => exact h.doneEnded j1 q' h1
    · next hne2 => rw [hB j2 hne2] at hb; exact h.order j1 j2 q' p1 p2 hlt h1 h2 hb

theorem OrderInvF.newQueued {R J J' Q Q' O B B' E E' N} {q : Nat} {l0 : List Nat} (hj : JobInvF R J Q O) (h : OrderInvF J Q B E N)
    (hfresh : ∀ i, N ≤ i → J i = none) (hq : Q q = some l0)
    (hJ : ∀ i, J' i = if i = N then some (.queued, q) else J i)
    (hQ : ∀ i, Q' i = if i = q then some (l0 ++ [N]) else Q i)
    (hB : ∀ i, B' i = if i = N then false else B i) (hE : ∀ i, i ≠ N → E' i = E i) : OrderInvF J' Q' B' E' (N + 1) := by
  refine ⟨?_, ?_, ?_, ?_, ?_⟩
  · intro i pq hi
    rw [hJ] at hi
    split at hi
    · next e => omega
    · have := h.bound i pq hi; omega
  · intro q' l hl
    rw [hQ] at hl
    split at hl
    · simp at hl; subst hl
      refine List.pairwise_append.mpr ⟨h.sorted q l0 hq, by simp, ?_⟩
      intro x hx y hy
      simp at hy; subst hy
      exact h.bound x _ (hj.queued q l0 x hq hx)
    · exact h.sorted q' l hl
  · intro j1 j2 a' q' hh hq'
    rw [hJ] at hh hq'
    split at hh
    · simp at hh
    · split at hq'
      · next e => have := h.bound j1 _ hh; omega
      · exact h.heldFirst j1 j2 a' q' hh hq'
  · intro i q' hd
    rw [hJ] at hd
    split at hd
    · simp at hd
    · next hne => rw [hE i hne]; exact h.doneEnded i q' hd
  · intro j1 j2 q' p1 p2 hlt h1 h2 hb
    rw [hB] at hb
    split at hb
    · cases hb
    · next hne2 =>
      rw [hJ] at h1 h2
      simp only [hne2, ↓reduceIte] at h2
      have hne1 : j1 ≠ N := by
        intro e; have := h.bound j2 _ h2; omega
      simp only [hne1, ↓reduceIte] at h1
      rw [hE j1 hne1]
      exact h.order j1 j2 q' p1 p2 hlt h1 h2 hb

end Desync
