import DesyncModel.Exec
import DesyncModel.Pipe.Exec
open Desync

/-- parse `pool N objects KINDS gates M ...` -/
def parseHeader (ws : List String) : Option (Nat × Nat × Nat) :=
  let rec find (k : String) : List String → Option String
    | a :: b :: rest => if a == k then some b else find k (b :: rest)
    | _ => none
  match find "pool" ws, find "objects" ws, find "gates" ws with
  | some p, some o, some g => some (p.toNat?.getD 0, o.length, g.toNat?.getD 0)
  | _, _, _ => none

def parseChans (ws : List String) : Nat :=
  let rec find : List String → Nat
    | a :: b :: rest => if a == "chans" then b.toNat?.getD 0 else find (b :: rest)
    | _ => 0
  find ws

structure Totals where
  ok : Nat := 0
  mismatch : Nat := 0
  skipped : Nat := 0
  events : Nat := 0
  hits : List (String × Nat) := []
  pipeOk : Nat := 0
  pipeMismatch : Nat := 0
  pipeHits : List (String × Nat) := []
  firstMismatch : Option String := none

def addHits (t : List (String × Nat)) (hs : List String) : List (String × Nat) :=
  hs.foldl (fun acc h => match acc.find? (·.1 == h) with
    | some _ => acc.map (fun p => if p.1 == h then (p.1, p.2 + 1) else p)
    | none => (h, 1) :: acc) t

/-- executions of programs with pipes: only the pipe events are replayed (through the pipe model) -/
partial def loopPipe (h : IO.FS.Stream) (hdr : String) (r : Pipe.PReplay) (n : Nat) (err : Option String) (tot : Totals) (verbose : Bool) : IO Totals := do
  let line ← h.getLine
  if line.isEmpty then return tot
  let line := line.trimAscii.toString
  if line.startsWith "#end" then
    let okEnd := (line.splitOn " ").contains "ok"
    let err := match err with
      | some e => some e
      | none => if okEnd then Pipe.quietCheck r else none
    match err with
    | some e =>
      IO.println s!"MISMATCH-PIPE {hdr} :: {e}"
      return { tot with pipeMismatch := tot.pipeMismatch + 1, events := tot.events + n, firstMismatch := tot.firstMismatch <|> some s!"{hdr} :: {e}" }
    | none =>
      if verbose then IO.println s!"OK {hdr} pipe-events={n}"
      return { tot with pipeOk := tot.pipeOk + 1, events := tot.events + n, pipeHits := addHits tot.pipeHits r.hits }
  else
    match err with
    | some _ => loopPipe h hdr r n err tot verbose
    | none =>
      let ws := (line.splitOn " ").filter (· != "")
      match ws with
      | agS :: rest =>
        let ag := agS.toNat?.getD 0
        match Pipe.replayEvent r ag rest with
        | .ok r' =>
          if verbose && (← IO.getEnv "DRIVER_DEBUG").isSome && r'.hits.length != r.hits.length then
            IO.println s!"  {n+1} `{line}` -> {r'.hits.head?.getD ""} :: {(r'.pipes.map (fun p => Pipe.describe p.2))}"
          loopPipe h hdr { r' with hits := r'.hits } (n + 1) none tot verbose
        | .error e => loopPipe h hdr r n (some s!"event {n + 1} `{line}`: {e}") tot verbose
      | [] => loopPipe h hdr r n err tot verbose

partial def loop (h : IO.FS.Stream) (cur : Option (String × Replay × Nat × Option String)) (tot : Totals) (verbose : Bool) : IO Totals := do
  let line ← h.getLine
  if line.isEmpty then return tot
  let line := line.trimAscii.toString
  if line.startsWith "#exec" && parseChans (line.splitOn " ") > 0 then
    let tot ← loopPipe h line {} 0 none tot verbose
    loop h none tot verbose
  else if line.startsWith "#exec" then
    let ws := line.splitOn " "
    match parseHeader ws with
    | some (pool, nobj, ngates) =>
      let r : Replay := { s := initState nobj ngates pool, names := [], tags := [], futIds := [], threads := [], callAct := [], callOp := [], hits := [], started := false }
      loop h (some (line, r, 0, none)) tot verbose
    | none => loop h none tot verbose
  else if line.startsWith "#end" then
    match cur with
    | none => loop h none tot verbose
    | some (hdr, r, n, err) =>
      let deadlock := (line.splitOn " ").contains "deadlock"
      let err := match err with
        | some e => some e
        | none =>
          if deadlock then (if r.s.quiescent then none else some "the implementation deadlocked but the model still has an enabled step")
          else quietCheck r.s
      match err with
      | some e =>
        if (e.splitOn "UNMODELLED").length > 1 then
          if verbose then IO.println s!"SKIP {hdr} :: {e}"
          loop h none { tot with skipped := tot.skipped + 1 } verbose
        else
          let actsS := (List.range r.s.acts.length).map (fun a => match r.s.acts[a]? with | some v => s!"{a}@t{v.thread}:{pcName v.pc}" | none => "")
          IO.println s!"MISMATCH {hdr} :: {e} :: acts {actsS}"
          loop h none { tot with mismatch := tot.mismatch + 1, events := tot.events + n, firstMismatch := tot.firstMismatch <|> some s!"{hdr} :: {e}" } verbose
      | none =>
        if verbose then IO.println s!"OK {hdr} events={n}"
        loop h none { tot with ok := tot.ok + 1, events := tot.events + n, hits := addHits tot.hits r.hits } verbose
  else
    match cur with
    | none => loop h none tot verbose
    | some (hdr, r, n, some e) => loop h (some (hdr, r, n, some e)) tot verbose
    | some (hdr, r, n, none) =>
      let ws := (line.splitOn " ").filter (· != "")
      match ws with
      | agS :: rest =>
        let ag := agS.toNat?.getD 0
        match replayEvent r ag rest with
        | .ok r' =>
          if verbose && (← IO.getEnv "DRIVER_DEBUG").isSome then
            let actsS := (List.range r'.s.acts.length).filterMap (fun a => match r'.s.acts[a]? with
              | some v => (match v.pc with | .dead => none | _ => some s!"{a}@t{v.thread}:{pcName v.pc}") | none => none)
            IO.println s!"  {n+1} `{line}` -> {actsS}"
          loop h (some (hdr, r', n + 1, none)) tot verbose
        | .error e =>
          let pcS := match r.s.leafOf (threadModel r ag) with | some a => pcOf r.s a | none => "none"
          loop h (some (hdr, r, n, some s!"event {n + 1} `{line}`: {e} :: pc={pcS}")) tot verbose
      | [] => loop h cur tot verbose

def main (args : List String) : IO UInt32 := do
  match args with
  | "conform" :: path :: rest =>
    let verbose := rest.contains "-v"
    let hdl ← IO.FS.Handle.mk path .read
    let tot ← loop (IO.FS.Stream.ofHandle hdl) none {} verbose
    let covered := allPcNames.filter (fun n => tot.hits.any (·.1 == n))
    let missing := allPcNames.filter (fun n => !tot.hits.any (·.1 == n))
    let pcov := Pipe.allLabelNames.filter (fun n => tot.pipeHits.any (fun p => p.1 == n || p.1.startsWith (n ++ "-")))
    IO.println s!"SUMMARY ok={tot.ok} mismatch={tot.mismatch} skipped={tot.skipped} events={tot.events} covered={covered.length}/{allPcNames.length} pipe_ok={tot.pipeOk} pipe_mismatch={tot.pipeMismatch} pipe_labels={pcov.length}/{Pipe.allLabelNames.length}"
    let phs := tot.pipeHits.map (fun p => s!"{p.1}:{p.2}")
    IO.println s!"PIPEHITS {phs}"
    IO.println s!"MISSING {missing}"
    let hs := tot.hits.map (fun p => s!"{p.1}:{p.2}")
    IO.println s!"HITS {hs}"
    return (if tot.mismatch == 0 && tot.pipeMismatch == 0 then 0 else 1)
  | _ =>
    IO.eprintln "usage: driver conform <trace-file> [-v]"
    return 2
