import DesyncModel.Types
import DesyncModel.Generated
import DesyncModel.Tables
