//! Program DSL: what the harness executes against the real crate and what the Lean driver turns
//! into environment labels.  Text form (one token stream, whitespace separated):
//!
//!   pool <n> objects <kinds: one of d|q per object> gates <n>
//!   thread <op>* end
//!   ...
//!
//! op :=  desync <obj> { <op>* }         closure body = nested ops
//!      | sync <obj> { <op>* }
//!      | trysync <obj> { <op>* }
//!      | fdesync <obj> <gate|-> <fut|->   future op: begin; await gate; end.  fut `-` = detach
//!      | after <obj> <gate> <fut|->
//!      | fsync <obj> <gate|-> <fut>       future_sync, returned future kept
//!      | suspend <obj> <fut>
//!      | await <fut> | pollonce <fut> | syncf <fut> | dropf <fut> | resume <fut>
//!      | open <gate> | dropobj <obj> | setmax <n> | despawn | yield

use std::fmt::Write;

#[derive(Clone, Debug, PartialEq)]
pub enum Op {
    Desync(usize, Vec<Op>),
    Sync(usize, Vec<Op>),
    TrySync(usize, Vec<Op>),
    FDesync(usize, Option<usize>, Option<usize>),
    After(usize, usize, Option<usize>),
    FSync(usize, Option<usize>, usize),
    Suspend(usize, usize),
    Await(usize),
    PollOnce(usize),
    SyncF(usize),
    DropF(usize),
    Resume(usize),
    Open(usize),
    DropObj(usize),
    SetMax(usize),
    Despawn,
    Yield,
    /// harness-only: wait (without touching the API) until `n` asynchronous operations have completed
    WaitCount(usize),
    PipeIn(usize, usize),
    Pipe(usize, usize, usize),
    Send(usize, usize),
    CloseCh(usize),
    Next(usize),
    Drain(usize),
    DropOut(usize),
    SetDepth(usize, usize),
}

#[derive(Clone, Debug, PartialEq)]
pub struct Program {
    pub pool: usize,
    /// one char per object: 'd' = Desync<Payload>, 'q' = raw JobQueue (scheduler-level API, supports suspend)
    pub kinds: String,
    pub objects: usize,
    pub gates: usize,
    pub chans: usize,
    pub threads: Vec<Vec<Op>>,
}

fn opt(o: &Option<usize>) -> String { match o { Some(v) => v.to_string(), None => "-".to_string() } }

impl Op {
    pub fn write(&self, out: &mut String) {
        match self {
            Op::Desync(o, b) => { write!(out, "desync {} {{ ", o).unwrap(); for x in b { x.write(out); } out.push_str("} "); }
            Op::Sync(o, b) => { write!(out, "sync {} {{ ", o).unwrap(); for x in b { x.write(out); } out.push_str("} "); }
            Op::TrySync(o, b) => { write!(out, "trysync {} {{ ", o).unwrap(); for x in b { x.write(out); } out.push_str("} "); }
            Op::FDesync(o, g, f) => write!(out, "fdesync {} {} {} ", o, opt(g), opt(f)).unwrap(),
            Op::After(o, g, f) => write!(out, "after {} {} {} ", o, g, opt(f)).unwrap(),
            Op::FSync(o, g, f) => write!(out, "fsync {} {} {} ", o, opt(g), f).unwrap(),
            Op::Suspend(o, f) => write!(out, "suspend {} {} ", o, f).unwrap(),
            Op::Await(f) => write!(out, "await {} ", f).unwrap(),
            Op::PollOnce(f) => write!(out, "pollonce {} ", f).unwrap(),
            Op::SyncF(f) => write!(out, "syncf {} ", f).unwrap(),
            Op::DropF(f) => write!(out, "dropf {} ", f).unwrap(),
            Op::Resume(f) => write!(out, "resume {} ", f).unwrap(),
            Op::Open(g) => write!(out, "open {} ", g).unwrap(),
            Op::DropObj(o) => write!(out, "dropobj {} ", o).unwrap(),
            Op::SetMax(n) => write!(out, "setmax {} ", n).unwrap(),
            Op::Despawn => out.push_str("despawn "),
            Op::Yield => out.push_str("yield "),
            Op::WaitCount(n) => write!(out, "waitcount {} ", n).unwrap(),
            Op::PipeIn(o, c) => write!(out, "pipein {} {} ", o, c).unwrap(),
            Op::Pipe(o, c, s) => write!(out, "pipe {} {} {} ", o, c, s).unwrap(),
            Op::Send(c, n) => write!(out, "send {} {} ", c, n).unwrap(),
            Op::CloseCh(c) => write!(out, "closech {} ", c).unwrap(),
            Op::Next(s) => write!(out, "next {} ", s).unwrap(),
            Op::Drain(s) => write!(out, "drain {} ", s).unwrap(),
            Op::DropOut(s) => write!(out, "dropout {} ", s).unwrap(),
            Op::SetDepth(s, n) => write!(out, "setdepth {} {} ", s, n).unwrap(),
        }
    }

    pub fn kind(&self) -> &'static str {
        match self {
            Op::Desync(..) => "desync", Op::Sync(..) => "sync", Op::TrySync(..) => "trysync", Op::FDesync(..) => "fdesync",
            Op::After(..) => "after", Op::FSync(..) => "fsync", Op::Suspend(..) => "suspend", Op::Await(..) => "await", Op::PollOnce(..) => "pollonce",
            Op::SyncF(..) => "syncf", Op::DropF(..) => "dropf", Op::Resume(..) => "resume", Op::Open(..) => "open",
            Op::DropObj(..) => "dropobj", Op::SetMax(..) => "setmax", Op::Despawn => "despawn", Op::Yield => "yield", Op::WaitCount(..) => "waitcount",
            Op::PipeIn(..) => "pipein", Op::Pipe(..) => "pipe", Op::Send(..) => "send", Op::CloseCh(..) => "closech", Op::Next(..) => "next",
            Op::Drain(..) => "drain", Op::DropOut(..) => "dropout", Op::SetDepth(..) => "setdepth",
        }
    }
}

impl Program {
    pub fn to_text(&self) -> String {
        let mut s = format!("pool {} objects {} gates {} ", self.pool, self.kinds, self.gates);
        if self.chans > 0 { s.push_str(&format!("chans {} ", self.chans)); }
        for t in &self.threads {
            s.push_str("thread ");
            for op in t { op.write(&mut s); }
            s.push_str("end ");
        }
        s.trim_end().to_string()
    }

    pub fn parse(text: &str) -> Result<Program, String> {
        let toks: Vec<&str> = text.split_whitespace().collect();
        let mut p = Parser { toks, pos: 0 };
        p.expect("pool")?; let pool = p.num()?;
        p.expect("objects")?; let kinds = p.next()?.to_string(); let objects = kinds.len();
        if !kinds.chars().all(|c| c == 'd' || c == 'q') { return Err(format!("bad object kinds {}", kinds)); }
        p.expect("gates")?; let gates = p.num()?;
        let mut chans = 0;
        if p.peek() == Some("chans") { p.pos += 1; chans = p.num()?; }
        let mut threads = vec![];
        while p.pos < p.toks.len() {
            p.expect("thread")?;
            let mut ops = vec![];
            while p.peek() != Some("end") { ops.push(p.op()?); }
            p.expect("end")?;
            threads.push(ops);
        }
        Ok(Program { pool, kinds, objects, gates, chans, threads })
    }
}

struct Parser<'a> { toks: Vec<&'a str>, pos: usize }

impl<'a> Parser<'a> {
    fn peek(&self) -> Option<&'a str> { self.toks.get(self.pos).copied() }
    fn next(&mut self) -> Result<&'a str, String> { let t = self.peek().ok_or("unexpected end")?; self.pos += 1; Ok(t) }
    fn expect(&mut self, t: &str) -> Result<(), String> { let n = self.next()?; if n == t { Ok(()) } else { Err(format!("expected {} got {}", t, n)) } }
    fn num(&mut self) -> Result<usize, String> { let n = self.next()?; n.parse().map_err(|_| format!("bad number {}", n)) }
    fn optnum(&mut self) -> Result<Option<usize>, String> { if self.peek() == Some("-") { self.pos += 1; Ok(None) } else { Ok(Some(self.num()?)) } }
    fn body(&mut self) -> Result<Vec<Op>, String> {
        self.expect("{")?;
        let mut ops = vec![];
        while self.peek() != Some("}") { ops.push(self.op()?); }
        self.expect("}")?;
        Ok(ops)
    }
    fn op(&mut self) -> Result<Op, String> {
        let t = self.next()?;
        Ok(match t {
            "desync" => { let o = self.num()?; Op::Desync(o, self.body()?) }
            "sync" => { let o = self.num()?; Op::Sync(o, self.body()?) }
            "trysync" => { let o = self.num()?; Op::TrySync(o, self.body()?) }
            "fdesync" => { let o = self.num()?; let g = self.optnum()?; let f = self.optnum()?; Op::FDesync(o, g, f) }
            "after" => { let o = self.num()?; let g = self.num()?; let f = self.optnum()?; Op::After(o, g, f) }
            "fsync" => { let o = self.num()?; let g = self.optnum()?; let f = self.num()?; Op::FSync(o, g, f) }
            "suspend" => { let o = self.num()?; let f = self.num()?; Op::Suspend(o, f) }
            "await" => Op::Await(self.num()?),
            "pollonce" => Op::PollOnce(self.num()?),
            "syncf" => Op::SyncF(self.num()?),
            "dropf" => Op::DropF(self.num()?),
            "resume" => Op::Resume(self.num()?),
            "open" => Op::Open(self.num()?),
            "dropobj" => Op::DropObj(self.num()?),
            "setmax" => Op::SetMax(self.num()?),
            "despawn" => Op::Despawn,
            "yield" => Op::Yield,
            "waitcount" => Op::WaitCount(self.num()?),
            "pipein" => { let o = self.num()?; Op::PipeIn(o, self.num()?) }
            "pipe" => { let o = self.num()?; let c = self.num()?; Op::Pipe(o, c, self.num()?) }
            "send" => { let c = self.num()?; Op::Send(c, self.num()?) }
            "closech" => Op::CloseCh(self.num()?),
            "next" => Op::Next(self.num()?),
            "drain" => Op::Drain(self.num()?),
            "dropout" => Op::DropOut(self.num()?),
            "setdepth" => { let s = self.num()?; Op::SetDepth(s, self.num()?) }
            other => return Err(format!("unknown op {}", other)),
        })
    }
}

/// xorshift64* PRNG: every random choice of the generator derives from one seed.
pub struct Rng(pub u64);
impl Rng {
    pub fn new(seed: u64) -> Rng { Rng(seed.wrapping_mul(0x9E3779B97F4A7C15) | 1) }
    pub fn next(&mut self) -> u64 {
        let mut x = self.0;
        x ^= x >> 12; x ^= x << 25; x ^= x >> 27;
        self.0 = x;
        x.wrapping_mul(0x2545F4914F6CDD1D)
    }
    pub fn below(&mut self, n: usize) -> usize { if n == 0 { 0 } else { (self.next() % n as u64) as usize } }
    pub fn chance(&mut self, num: usize, den: usize) -> bool { self.below(den) < num }
}

/// Which families of operation a generated program may use.
#[derive(Clone, Copy, Debug)]
pub struct GenConfig {
    pub futures: bool,
    pub fsync: bool,
    pub suspend: bool,
    pub trysync: bool,
    pub drops: bool,
    pub nested: bool,
    pub pool_changes: bool,
    pub max_pool: usize,
    pub min_pool: usize,
}

impl Default for GenConfig {
    fn default() -> Self { GenConfig { futures: true, fsync: true, suspend: true, trysync: true, drops: true, nested: true, pool_changes: false, max_pool: 3, min_pool: 0 } }
}

/// Generate a program obeying the usage rules the properties exclude violations of:
/// nested ops only target objects with a larger index than every enclosing object; a future is
/// awaited/dropped by the thread that created it, after its creation; awaits of gated futures happen
/// only when the gate is opened by another thread or was opened before; a suspended queue is always
/// resumed (or its resumer dropped) by the thread that suspended it.
pub fn generate(rng: &mut Rng, cfg: &GenConfig) -> Program {
    let objects = 1 + rng.below(3);
    let kinds: String = (0..objects).map(|_| if rng.chance(1, 3) { 'q' } else { 'd' }).collect();
    let kind = |o: usize| kinds.as_bytes()[o] as char;
    let nthreads = 1 + rng.below(4);
    let pool = cfg.min_pool + rng.below(cfg.max_pool - cfg.min_pool + 1);
    // with no pool thread, future operations only make progress when a context polls them: the
    // properties restrict that case to a single context (C07), so multi-threaded pool-0 programs
    // use closures only
    let mut cfg = *cfg;
    if pool == 0 && nthreads > 1 { cfg.futures = false; cfg.fsync = false; cfg.suspend = false; }
    let cfg = &cfg;
    let mut gates = 0usize;
    let mut futs = 0usize;
    let mut threads: Vec<Vec<Op>> = vec![];
    let mut opener_ops: Vec<Op> = vec![];
    for _t in 0..nthreads {
        let n = 2 + rng.below(5);
        let mut ops = vec![];
        let mut live_futs: Vec<(usize, &'static str)> = vec![];
        for _ in 0..n {
            let o = rng.below(objects);
            let pick = rng.below(100);
            if pick < 22 {
                ops.push(Op::Desync(o, gen_body(rng, cfg, o, objects, 0)));
            } else if pick < 42 {
                ops.push(Op::Sync(o, gen_body(rng, cfg, o, objects, 0)));
            } else if pick < 50 && cfg.trysync {
                ops.push(Op::TrySync(o, vec![]));
            } else if pick < 66 && cfg.futures {
                let g = if rng.chance(1, 2) { let g = gates; gates += 1; opener_ops.push(Op::Open(g)); Some(g) } else { None };
                let keep = rng.chance(2, 3);
                let f = if keep { let f = futs; futs += 1; live_futs.push((f, "sf")); Some(f) } else { None };
                if g.is_some() && rng.chance(1, 3) {
                    // `after` returns an opaque future: it can be awaited or dropped but has no .sync()
                    if let Some(last) = live_futs.last_mut() { if Some(last.0) == f { last.1 = "af"; } }
                    ops.push(Op::After(o, g.unwrap(), f));
                } else { ops.push(Op::FDesync(o, g, f)); }
            } else if pick < 76 && cfg.fsync {
                let g = if rng.chance(1, 2) { let g = gates; gates += 1; opener_ops.push(Op::Open(g)); Some(g) } else { None };
                // a future_sync slot blocks its queue until the returned future is awaited or dropped, so the
                // creating thread does that straight away (anything else it might block on could depend on the queue)
                let f = futs; futs += 1;
                ops.push(Op::FSync(o, g, f));
                if rng.chance(1, 3) { ops.push(Op::Yield); }
                if rng.chance(1, 3) { ops.push(Op::PollOnce(f)); if rng.chance(1, 2) { ops.push(Op::Yield); } }
                if rng.chance(2, 3) { ops.push(Op::Await(f)); } else { ops.push(Op::DropF(f)); }
            } else if pick < 82 && cfg.suspend && kind(o) == 'q' {
                let f = futs; futs += 1;
                ops.push(Op::Suspend(o, f));
                // the suspending thread awaits the resumer and resumes a little later
                ops.push(Op::Await(f));
                if rng.chance(1, 2) { ops.push(Op::Desync(o, vec![])); }
                ops.push(Op::Resume(f));
            } else if pick < 94 && !live_futs.is_empty() {
                let i = rng.below(live_futs.len());
                let (f, kind) = live_futs.remove(i);
                let c = rng.below(10);
                // a future that has been polled is never handed to .sync() afterwards (sync() on a future its queue is
                // waiting to be polled by can only hang; the model has no such call)
                let syncf = c >= 6 && c < 8 && kind == "sf";
                if !syncf && rng.chance(1, 4) { ops.push(Op::PollOnce(f)); if rng.chance(1, 2) { ops.push(Op::Yield); } }
                if c < 6 { ops.push(Op::Await(f)); }
                else if c < 8 && kind == "sf" { ops.push(Op::SyncF(f)); }
                else { ops.push(Op::DropF(f)); }
            } else {
                ops.push(Op::Yield);
            }
        }
        // futures still alive are resolved at the end of the thread (await or drop)
        for (f, _) in live_futs { if rng.chance(2, 3) { ops.push(Op::Await(f)); } else { ops.push(Op::DropF(f)); } }
        threads.push(ops);
    }
    if cfg.drops && rng.chance(1, 3) && kinds.contains('d') {
        let mut o = rng.below(objects);
        while kind(o) != 'd' { o = (o + 1) % objects; }
        let t = rng.below(threads.len());
        let at = rng.below(threads[t].len() + 1);
        // never between a suspend and its resume, nor between a future_sync and its await/drop
        let safe = !threads[t].iter().any(|op| matches!(op, Op::Suspend(..)));
        let mut at = at;
        while at > 0 && at < threads[t].len() && matches!(threads[t][at], Op::Await(_) | Op::DropF(_) | Op::Yield | Op::PollOnce(_)) && threads[t][..at].iter().rev().take_while(|op| matches!(op, Op::Yield | Op::FSync(..) | Op::PollOnce(_))).any(|op| matches!(op, Op::FSync(..))) { at -= 1; }
        if at > 0 && at < threads[t].len() && matches!(threads[t][at - 1], Op::FSync(..)) { at -= 1; }
        if safe { threads[t].insert(at, Op::DropObj(o)); }
    }
    if !opener_ops.is_empty() {
        // gates are opened by a dedicated thread in random order so that no awaiting thread waits on itself
        let mut ops = vec![];
        while !opener_ops.is_empty() { let i = rng.below(opener_ops.len()); ops.push(opener_ops.remove(i)); if rng.chance(1, 3) { ops.push(Op::Yield); } }
        threads.push(ops);
    }
    Program { pool, kinds, objects, gates, chans: 0, threads }
}

fn gen_body(rng: &mut Rng, cfg: &GenConfig, enclosing: usize, objects: usize, depth: usize) -> Vec<Op> {
    let mut body = vec![];
    if !cfg.nested || depth >= 2 || enclosing + 1 >= objects { return body; }
    if rng.chance(1, 4) {
        let o = enclosing + 1 + rng.below(objects - enclosing - 1);
        if rng.chance(1, 2) { body.push(Op::Sync(o, gen_body(rng, cfg, o, objects, depth + 1))); }
        else { body.push(Op::Desync(o, gen_body(rng, cfg, o, objects, depth + 1))); }
    }
    body
}

/// Programs around one or two pipes: a creator thread, a producer thread that sends in bursts, a
/// consumer thread (for `pipe`), concurrent sync/desync on the target, optional close / drop of the
/// output / drop of the target.
pub fn generate_pipes(rng: &mut Rng) -> Program {
    let pool = 1 + rng.below(3);
    let objects = 1 + rng.below(2);
    let kinds: String = (0..objects).map(|_| 'd').collect();
    let through = rng.chance(2, 3);
    let mut threads: Vec<Vec<Op>> = vec![];
    let o = rng.below(objects);
    // creator (and, for pipe_in, some traffic on the object)
    let mut creator = vec![];
    if rng.chance(1, 3) { creator.push(Op::Desync(o, vec![])); }
    if through { creator.push(Op::Pipe(o, 0, 0)); } else { creator.push(Op::PipeIn(o, 0)); }
    if through && rng.chance(1, 3) { creator.push(Op::SetDepth(0, 1 + rng.below(5))); }
    // (an input may also end without ever yielding an item)
    let total = if rng.chance(1, 8) { 0 } else { 1 + rng.below(8) };
    if through {
        // the creator is also the consumer (the output stream lives in its frame)
        let reads = rng.below(total + 1);
        // sometimes the creator gives up its own reference to the target: the pipe then holds the last one
        let give_up = rng.chance(1, 4);
        let give_up_at = rng.below(reads + 1);
        for i in 0..reads {
            if give_up && i == give_up_at { creator.push(Op::DropObj(o)); }
            creator.push(Op::Next(0));
            if rng.chance(1, 4) { creator.push(Op::Yield); }
        }
        if give_up && give_up_at >= reads { creator.push(Op::DropObj(o)); if rng.chance(1, 2) { creator.push(Op::Yield); } }
        let c = rng.below(3);
        if c == 0 { creator.push(Op::Drain(0)); } else if c == 1 { creator.push(Op::DropOut(0)); }
    } else {
        for _ in 0..rng.below(3) { creator.push(Op::Sync(o, vec![])); }
    }
    threads.push(creator);
    // producer
    let mut prod = vec![];
    let mut left = total;
    if total == 0 && rng.chance(1, 2) { prod.push(Op::Yield); }
    while left > 0 { let n = 1 + rng.below(left.min(3)); prod.push(Op::Send(0, n)); left -= n; if rng.chance(1, 2) { prod.push(Op::Yield); if rng.chance(1, 3) { prod.push(Op::Yield); } } }
    // a consumer that drains needs the input to end; otherwise closing is optional
    let must_close = threads[0].iter().any(|op| matches!(op, Op::Drain(_)));
    if must_close || rng.chance(1, 2) { prod.push(Op::CloseCh(0)); }
    threads.push(prod);
    // other traffic on the object
    if rng.chance(1, 2) {
        let mut t = vec![];
        for _ in 0..1 + rng.below(3) { if rng.chance(1, 2) { t.push(Op::Sync(o, vec![])); } else { t.push(Op::Desync(o, vec![])); } }
        if !through && rng.chance(1, 4) { t.push(Op::DropObj(o)); }
        threads.push(t);
    }
    Program { pool, kinds, objects, gates: 0, chans: 1, threads }
}
