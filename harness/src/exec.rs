//! Runs one program against the real crate (inside one shuttle execution, or with real threads)
//! and judges it with the property oracles.  Every oracle failure is tagged with the properties
//! whose text it contradicts.

use crate::program::{Op, Program};
use crate::rt;

use desync::scheduler::{self, scheduler, JobQueue, QueueResumer, SchedulerFuture, TrySyncError};
use desync::Desync;
use futures::channel::mpsc;
use futures::channel::oneshot;
use futures::stream::{Stream, StreamExt};
use futures::future::{BoxFuture, FutureExt};
use futures::Future;

use std::collections::HashMap;
use std::pin::Pin;
use std::sync::atomic::{AtomicBool, AtomicU64, AtomicUsize, Ordering};
use std::sync::{Arc, Mutex as StdMutex};

#[derive(Clone, Debug)]
pub struct Failure {
    pub props: Vec<&'static str>,
    pub what: String,
}

/// Program with every operation numbered in preorder (the call id used in events and oracles).
#[derive(Clone, Debug)]
pub struct Node {
    pub id: usize,
    pub op: Op,
    pub body: Vec<Node>,
}

pub fn number(prog: &Program) -> (Vec<Vec<Node>>, usize) {
    fn go(ops: &[Op], next: &mut usize) -> Vec<Node> {
        ops.iter().map(|op| {
            let id = *next; *next += 1;
            let body = match op { Op::Desync(_, b) | Op::Sync(_, b) | Op::TrySync(_, b) => go(b, next), _ => vec![] };
            Node { id, op: op.clone(), body }
        }).collect()
    }
    let mut next = 0;
    let threads = prog.threads.iter().map(|t| go(t, &mut next)).collect();
    (threads, next)
}

#[derive(Default, Debug)]
pub struct CallRec {
    pub kind: &'static str,
    pub obj: usize,
    pub inv: AtomicU64,
    pub ret: AtomicU64,
    pub start: AtomicU64,
    pub end: AtomicU64,
    pub runs: AtomicUsize,
    pub accepted: AtomicBool,
    pub busy: AtomicBool,
    pub cancelled: AtomicBool,
    pub gate: Option<usize>,
    /// future_sync through `Desync::future_sync`: when the future the user's closure returned was destroyed (0 = not yet)
    pub destroyed: AtomicU64,
    /// the call went through the `Desync` API (the user future holds the protected value)
    pub via_desync: AtomicBool,
}

pub struct Payload {
    obj: usize,
    ctx: Arc<Ctx>,
}

impl Drop for Payload {
    fn drop(&mut self) {
        let n = self.ctx.drops[self.obj].fetch_add(1, Ordering::SeqCst);
        if self.ctx.occ[self.obj].load(Ordering::SeqCst) != 0 {
            self.ctx.fail(&["C05", "C14"], format!("object {} freed while an operation on it is in progress", self.obj));
        }
        self.ctx.dead[self.obj].store(true, Ordering::SeqCst);
        rt::emit(&format!("free {}", self.obj));
        if n != 0 { self.ctx.fail(&["C05", "C14"], format!("object {} freed {} times", self.obj, n + 1)); }
    }
}

/// the input stream handed to a pipe: counts its own destruction
pub struct CountedStream { inner: mpsc::UnboundedReceiver<u64>, chan: usize, ctx: Arc<Ctx> }
impl Stream for CountedStream {
    type Item = u64;
    fn poll_next(mut self: Pin<&mut Self>, cx: &mut std::task::Context<'_>) -> std::task::Poll<Option<u64>> {
        let r = Pin::new(&mut self.inner).poll_next(cx);
        match &r {
            std::task::Poll::Ready(Some(v)) => rt::emit(&format!("yielded {} {}", self.chan, v)),
            std::task::Poll::Ready(None) => rt::emit(&format!("inend {}", self.chan)),
            std::task::Poll::Pending => rt::emit(&format!("inpending {}", self.chan)),
        }
        r
    }
}
impl Drop for CountedStream {
    fn drop(&mut self) { self.ctx.stream_drops[self.chan].fetch_add(1, Ordering::SeqCst); rt::emit(&format!("streamdrop {}", self.chan)); }
}
/// captured by the processing closure: counts the closure's destruction
pub struct FnGuard { chan: usize, ctx: Arc<Ctx> }
impl Drop for FnGuard {
    fn drop(&mut self) { self.ctx.fn_drops[self.chan].fetch_add(1, Ordering::SeqCst); rt::emit(&format!("fndrop {}", self.chan)); }
}

pub enum Obj {
    D(Arc<Desync<Payload>>),
    Q(Arc<JobQueue>, Arc<Payload>),
}

impl Clone for Obj {
    fn clone(&self) -> Obj { match self { Obj::D(d) => Obj::D(Arc::clone(d)), Obj::Q(q, p) => Obj::Q(Arc::clone(q), Arc::clone(p)) } }
}

struct GateState { open: bool, waiting: Vec<oneshot::Sender<()>> }

enum Fut {
    Sched(SchedulerFuture<u64>, usize),
    Boxed(Pin<Box<dyn Future<Output = Result<u64, oneshot::Canceled>> + Send>>, usize),
    Suspend(Pin<Box<dyn Future<Output = Result<QueueResumer, oneshot::Canceled>> + Send>>, usize),
    Resumer(QueueResumer, usize),
}

pub struct Ctx {
    pub prog: Program,
    pub ncalls: usize,
    objs: Vec<StdMutex<Option<Obj>>>,
    occ: Vec<AtomicUsize>,
    dead: Vec<AtomicBool>,
    drops: Vec<AtomicUsize>,
    dropobj_done: Vec<AtomicBool>,
    gates: Vec<StdMutex<GateState>>,
    futs: StdMutex<HashMap<usize, Fut>>,
    pub calls: Vec<CallRec>,
    clock: AtomicU64,
    pub fails: StdMutex<Vec<Failure>>,
    /// what each program thread is currently inside (for classifying a deadlock)
    pub status: StdMutex<HashMap<usize, (usize, &'static str, usize)>>,
    pub main_waiting: AtomicBool,
    done: rt::Mutex<usize>,
    done_cv: rt::Condvar,
    pub max_pool: AtomicUsize,
    pub pool_changed: AtomicBool,
    pub stats: StdMutex<HashMap<&'static str, usize>>,
    // pipes
    senders: Vec<StdMutex<Option<mpsc::UnboundedSender<u64>>>>,
    receivers: Vec<StdMutex<Option<mpsc::UnboundedReceiver<u64>>>>,
    outs: StdMutex<HashMap<usize, desync::PipeStream<u64>>>,
    pub sent: Vec<StdMutex<Vec<u64>>>,
    pub processed: Vec<StdMutex<Vec<u64>>>,
    pub outputs: StdMutex<HashMap<usize, Vec<u64>>>,
    pub out_ended: StdMutex<HashMap<usize, bool>>,
    pub pipe_of_chan: Vec<StdMutex<Option<(usize, bool, Option<usize>)>>>,   // (object, through?, out)
    pub chan_closed: Vec<AtomicBool>,
    pub out_dropped: StdMutex<HashMap<usize, bool>>,
    stream_drops: Vec<AtomicUsize>,
    fn_drops: Vec<AtomicUsize>,
}

fn token(id: usize) -> u64 { id as u64 * 7 + 3 }

impl Ctx {
    pub fn fail(&self, props: &[&'static str], what: String) {
        rt::emit(&format!("oraclefail {}", what.replace(' ', "_")));
        self.fails.lock().unwrap().push(Failure { props: props.to_vec(), what });
    }
    fn tick(&self) -> u64 { self.clock.fetch_add(1, Ordering::SeqCst) + 1 }
    fn stat(&self, k: &'static str) { *self.stats.lock().unwrap().entry(k).or_insert(0) += 1; }

    fn obj(&self, o: usize) -> Option<Obj> { self.objs[o].lock().unwrap().clone() }

    fn op_completed(&self) {
        let mut d = self.done.lock().unwrap();
        *d += 1;
        self.done_cv.notify_all();
    }

    fn gate_future(&self, g: Option<usize>) -> BoxFuture<'static, ()> {
        match g {
            None => futures::future::ready(()).boxed(),
            Some(g) => {
                let mut gs = self.gates[g].lock().unwrap();
                if gs.open { futures::future::ready(()).boxed() } else {
                    let (s, r) = oneshot::channel::<()>();
                    gs.waiting.push(s);
                    async move { r.await.ok(); }.boxed()
                }
            }
        }
    }

    // ---- operation bodies -------------------------------------------------------------------

    fn enter(&self, id: usize, obj: usize) {
        let c = &self.calls[id];
        rt::emit(&format!("beg {}", id));
        c.start.store(self.tick(), Ordering::SeqCst);
        let runs = c.runs.fetch_add(1, Ordering::SeqCst);
        if runs != 0 { self.fail(&["C03"], format!("operation {} ({}) started {} times", id, c.kind, runs + 1)); }
        if self.occ[obj].swap(1, Ordering::SeqCst) != 0 {
            self.fail(&["C01", "C14"], format!("operation {} ({}) on object {} started while another operation on it was in progress", id, c.kind, obj));
        }
        if self.dead[obj].load(Ordering::SeqCst) {
            self.fail(&["C05", "C14"], format!("operation {} ran on object {} after it was freed", id, obj));
        }
        if c.busy.load(Ordering::SeqCst) { self.fail(&["C09"], format!("try_sync {} ran its closure after returning Busy", id)); }
    }

    /// the processing function of a pipe runs for one item (inside the target's exclusive access)
    fn pipe_item(&self, obj: usize, chan: usize, item: u64) {
        rt::emit(&format!("pitem {} {}", chan, item));
        if self.occ[obj].swap(1, Ordering::SeqCst) != 0 {
            self.fail(&["C01", "C11"], format!("pipe on channel {} processed item {} while another operation on object {} was in progress", chan, item, obj));
        }
        if self.dead[obj].load(Ordering::SeqCst) { self.fail(&["C05", "C11", "C14"], format!("pipe processed item {} on object {} after it was freed", item, obj)); }
        self.processed[chan].lock().unwrap().push(item);
        rt::yield_now();
        self.occ[obj].store(0, Ordering::SeqCst);
    }

    fn exit(&self, id: usize, obj: usize, destroyed: bool) {
        let c = &self.calls[id];
        if self.dead[obj].load(Ordering::SeqCst) {
            self.fail(&["C05", "C14"], format!("operation {} still running on object {} after it was freed", id, obj));
        }
        self.occ[obj].store(0, Ordering::SeqCst);
        c.end.store(self.tick(), Ordering::SeqCst);
        if destroyed { c.cancelled.store(true, Ordering::SeqCst); }
        rt::emit(&format!("{} {}", if destroyed { "cancel" } else { "end" }, id));
    }
}

/// Marks the end of a future operation when the future completes *or is destroyed*.
struct Span { ctx: Arc<Ctx>, id: usize, obj: usize, finished: bool, counts: bool }
impl Drop for Span {
    fn drop(&mut self) {
        if !self.finished { self.ctx.exit(self.id, self.obj, true); if self.counts { self.ctx.op_completed(); } }
    }
}

/// Gives up one reference to object `o`.  If it is the last owner of a Desync this is `Desync::drop`:
/// it is reported as a call of its own (it blocks until the object's queue has drained).
fn release(ctx: &Arc<Ctx>, o: usize, obj: Obj, thread: usize) {
    let last = match &obj { Obj::D(d) => Arc::strong_count(d) == 1, Obj::Q(..) => false };
    if !last { drop(obj); return; }
    let id = ctx.ncalls + 2_000_000 + ctx.clock.fetch_add(1, Ordering::SeqCst) as usize;
    ctx.status.lock().unwrap().insert(thread, (id, "dropobj", o));
    rt::emit(&format!("inv {} dropobj {}", id, o));
    let before = ctx.clock.load(Ordering::SeqCst);
    drop(obj);
    if ctx.drops[o].load(Ordering::SeqCst) != 1 { ctx.fail(&["C05"], format!("dropping the last owner of object {} returned without freeing the value exactly once ({} frees)", o, ctx.drops[o].load(Ordering::SeqCst))); }
    // every operation accepted before the drop began has finished
    for (cid, c) in ctx.calls.iter().enumerate() {
        if c.obj == o && c.accepted.load(Ordering::SeqCst) && c.ret.load(Ordering::SeqCst) != 0 && c.ret.load(Ordering::SeqCst) <= before
            && c.kind != "fsync" && c.kind != "suspend" && c.kind != "dropobj" && c.end.load(Ordering::SeqCst) == 0 {
            ctx.fail(&["C05"], format!("drop of object {} returned while operation {} ({}) scheduled before it had not finished", o, cid, c.kind));
        }
    }
    rt::emit(&format!("ret {} ok", id));
    ctx.status.lock().unwrap().remove(&thread);
}

fn closure_body(ctx: &Arc<Ctx>, node: &Node, obj: usize, thread: usize) -> u64 {
    ctx.enter(node.id, obj);
    run_ops(ctx, &node.body, thread);
    rt::yield_now();
    ctx.exit(node.id, obj, false);
    token(node.id)
}

/// The future a `Desync::future_sync` closure returns, written by hand the way a user might: it is given the protected value
/// and keeps hold of it until it is *destroyed* - which takes a moment - not merely until it has produced its result.  So the
/// operation is over (`end` / `cancel`, the occupancy of the object released) when this future is dropped, and no later
/// operation of the object may begin before that (C08, C01), whether it ran to completion or was cancelled.
struct HeldFuture { ctx: Arc<Ctx>, id: usize, obj: usize, gate: Option<usize>, wait: Option<BoxFuture<'static, ()>>, entered: bool, finished: bool }
impl Future for HeldFuture {
    type Output = u64;
    fn poll(mut self: Pin<&mut Self>, cx: &mut std::task::Context<'_>) -> std::task::Poll<u64> {
        if !self.entered {
            self.ctx.enter(self.id, self.obj);
            self.entered = true;
            let w = self.ctx.gate_future(self.gate);
            self.wait = Some(w);
        }
        match self.wait.as_mut().unwrap().poll_unpin(cx) {
            std::task::Poll::Pending => std::task::Poll::Pending,
            std::task::Poll::Ready(()) => { self.finished = true; std::task::Poll::Ready(token(self.id)) }
        }
    }
}
impl Drop for HeldFuture {
    fn drop(&mut self) {
        if !self.entered { return; }
        // a destructor that takes time: other threads get to run before the future is gone
        if !std::thread::panicking() { rt::yield_now(); }
        self.ctx.exit(self.id, self.obj, !self.finished);
        let t = self.ctx.tick();
        self.ctx.calls[self.id].destroyed.store(t, Ordering::SeqCst);
    }
}

fn future_body(ctx: Arc<Ctx>, id: usize, obj: usize, gate: Option<usize>, counts: bool) -> BoxFuture<'static, u64> {
    async move {
        ctx.enter(id, obj);
        let mut span = Span { ctx: Arc::clone(&ctx), id, obj, finished: false, counts };
        let wait = ctx.gate_future(gate);
        wait.await;
        span.finished = true;
        ctx.exit(id, obj, false);
        if counts { ctx.op_completed(); }
        token(id)
    }.boxed()
}

// ---- API calls ------------------------------------------------------------------------------

fn call_begin(ctx: &Arc<Ctx>, node: &Node, thread: usize, obj: usize) {
    let c = &ctx.calls[node.id];
    ctx.status.lock().unwrap().insert(thread, (node.id, c.kind, obj));
    let extra = match &node.op {
        Op::FDesync(_, g, _) | Op::FSync(_, g, _) => match g { Some(g) => format!(" {}", g), None => " -".to_string() },
        Op::After(_, g, _) => format!(" {}", g),
        _ => String::new(),
    };
    rt::emit(&format!("inv {} {} {}{}", node.id, c.kind, obj, extra));
    c.inv.store(ctx.tick(), Ordering::SeqCst);
}

fn call_end(ctx: &Arc<Ctx>, node: &Node, thread: usize, result: &str) {
    let c = &ctx.calls[node.id];
    c.ret.store(ctx.tick(), Ordering::SeqCst);
    rt::emit(&format!("ret {} {}", node.id, result));
    ctx.status.lock().unwrap().remove(&thread);
}

fn check_sync_result(ctx: &Arc<Ctx>, node: &Node, v: u64, what: &'static str, prop: &'static str) {
    let c = &ctx.calls[node.id];
    if v != token(node.id) { ctx.fail(&[prop], format!("{} {} returned {} instead of its own closure's value {}", what, node.id, v, token(node.id))); }
    if c.runs.load(Ordering::SeqCst) != 1 { ctx.fail(&[prop], format!("{} {} returned with its closure run {} times", what, node.id, c.runs.load(Ordering::SeqCst))); }
    let (inv, start, end) = (c.inv.load(Ordering::SeqCst), c.start.load(Ordering::SeqCst), c.end.load(Ordering::SeqCst));
    if !(inv < start && start < end) { ctx.fail(&[prop], format!("{} {}: closure did not run strictly inside the call (inv {} start {} end {})", what, node.id, inv, start, end)); }
}

pub fn run_ops(ctx: &Arc<Ctx>, ops: &[Node], thread: usize) {
    let mut i = 0;
    while i < ops.len() {
        let node = &ops[i];
        i += 1;
        match &node.op {
            Op::Desync(o, _) => {
                let Some(obj) = ctx.obj(*o) else { ctx.stat("skipped-dropped"); continue };
                call_begin(ctx, node, thread, *o);
                ctx.calls[node.id].accepted.store(true, Ordering::SeqCst);
                let (c2, n2, o2) = (Arc::clone(ctx), node.clone(), *o);
                match &obj {
                    Obj::D(d) => d.desync(move |_p| { closure_body(&c2, &n2, o2, thread); c2.op_completed(); }),
                    Obj::Q(q, _) => scheduler::desync(q, move || { closure_body(&c2, &n2, o2, thread); c2.op_completed(); }),
                }
                call_end(ctx, node, thread, "ok");
                release(ctx, *o, obj, thread);
            }
            Op::Sync(o, _) => {
                let Some(obj) = ctx.obj(*o) else { ctx.stat("skipped-dropped"); continue };
                call_begin(ctx, node, thread, *o);
                ctx.calls[node.id].accepted.store(true, Ordering::SeqCst);
                let v = match &obj {
                    Obj::D(d) => d.sync(|_p| closure_body(ctx, node, *o, thread)),
                    Obj::Q(q, _) => scheduler::sync(q, || closure_body(ctx, node, *o, thread)),
                };
                check_sync_result(ctx, node, v, "sync", "C04");
                call_end(ctx, node, thread, "ok");
                release(ctx, *o, obj, thread);
            }
            Op::TrySync(o, _) => {
                let Some(obj) = ctx.obj(*o) else { ctx.stat("skipped-dropped"); continue };
                call_begin(ctx, node, thread, *o);
                let r = match &obj {
                    Obj::D(d) => d.try_sync(|_p| closure_body(ctx, node, *o, thread)),
                    Obj::Q(q, _) => scheduler::try_sync(q, || closure_body(ctx, node, *o, thread)),
                };
                match r {
                    Ok(v) => { ctx.calls[node.id].accepted.store(true, Ordering::SeqCst); check_sync_result(ctx, node, v, "try_sync", "C09"); ctx.stat("trysync-ok"); call_end(ctx, node, thread, "ok"); }
                    Err(TrySyncError::Busy) => {
                        ctx.calls[node.id].busy.store(true, Ordering::SeqCst);
                        if ctx.calls[node.id].runs.load(Ordering::SeqCst) != 0 { ctx.fail(&["C09"], format!("try_sync {} returned Busy but ran its closure", node.id)); }
                        ctx.stat("trysync-busy");
                        call_end(ctx, node, thread, "busy");
                    }
                }
                release(ctx, *o, obj, thread);
            }
            Op::FDesync(o, g, f) => {
                let Some(obj) = ctx.obj(*o) else { ctx.stat("skipped-dropped"); continue };
                call_begin(ctx, node, thread, *o);
                ctx.calls[node.id].accepted.store(true, Ordering::SeqCst);
                let (c2, id, o2, g2) = (Arc::clone(ctx), node.id, *o, *g);
                let fut: SchedulerFuture<u64> = match &obj {
                    Obj::D(d) => d.future_desync(move |_p| future_body(c2, id, o2, g2, true)),
                    Obj::Q(q, _) => scheduler::future_desync(q, move || future_body(c2, id, o2, g2, true)),
                };
                call_end(ctx, node, thread, "ok");
                match f { Some(f) => { ctx.futs.lock().unwrap().insert(*f, Fut::Sched(fut, node.id)); } None => fut.detach() }
                release(ctx, *o, obj, thread);
            }
            Op::After(o, g, f) => {
                let Some(obj) = ctx.obj(*o) else { ctx.stat("skipped-dropped"); continue };
                call_begin(ctx, node, thread, *o);
                ctx.calls[node.id].accepted.store(true, Ordering::SeqCst);
                let (c2, id, o2) = (Arc::clone(ctx), node.id, *o);
                let wait = ctx.gate_future(Some(*g));
                let job = move || { c2.enter(id, o2); rt::yield_now(); c2.exit(id, o2, false); c2.op_completed(); token(id) };
                let fut: Pin<Box<dyn Future<Output = Result<u64, oneshot::Canceled>> + Send>> = match &obj {
                    Obj::D(d) => Box::pin(d.after(wait, move |_p, _| job())),
                    Obj::Q(q, _) => Box::pin(scheduler().after(q, wait, move |_| job())),
                };
                call_end(ctx, node, thread, "ok");
                match f { Some(f) => { ctx.futs.lock().unwrap().insert(*f, Fut::Boxed(fut, node.id)); } None => drop(fut) }
                release(ctx, *o, obj, thread);
            }
            Op::FSync(o, g, f) => {
                let Some(obj) = ctx.obj(*o) else {
                    ctx.stat("skipped-dropped");
                    // skip the ops that use the future
                    while i < ops.len() { let stop = matches!(&ops[i].op, Op::Await(x) | Op::DropF(x) if x == f); i += 1; if stop { break; } }
                    continue
                };
                call_begin(ctx, node, thread, *o);
                ctx.calls[node.id].accepted.store(true, Ordering::SeqCst);
                let (c2, id, o2, g2) = (Arc::clone(ctx), node.id, *o, *g);
                // the returned future borrows the object, so it lives in this frame until the matching await/dropf
                let fut: Pin<Box<dyn Future<Output = Result<u64, oneshot::Canceled>> + Send + '_>> = match &obj {
                    Obj::D(d) => {
                        ctx.calls[node.id].via_desync.store(true, Ordering::SeqCst);
                        Box::pin(d.future_sync(move |_p| HeldFuture { ctx: c2, id, obj: o2, gate: g2, wait: None, entered: false, finished: false }.boxed()))
                    }
                    Obj::Q(q, _) => Box::pin(scheduler::future_sync(q, move || future_body(c2, id, o2, g2, false))),
                };
                call_end(ctx, node, thread, "ok");
                let mut fut = Some(fut);
                while i < ops.len() && fut.is_some() {
                    let next = &ops[i];
                    i += 1;
                    match &next.op {
                        Op::Yield => rt::yield_now(),
                        Op::PollOnce(x) if x == f => {
                            rt::emit(&format!("inv {} pollonce {}", next.id, node.id));
                            let r = poll_once(fut.as_mut().unwrap());
                            match r {
                                std::task::Poll::Ready(r) => {
                                    // the completed future is dropped before the call is reported as returned (as block_on does)
                                    fut = None;
                                    rt::emit(&format!("ret {} {}", next.id, if r.is_ok() { "ok" } else { "canceled" }));
                                    match r { Ok(v) => check_sync_result(ctx, node, v, "future_sync", "C08"), Err(_) => ctx.fail(&["C08"], format!("future_sync {} resolved to Canceled", node.id)) }
                                    // the matching await/dropf has nothing left to do
                                    while i < ops.len() { let stop = matches!(&ops[i].op, Op::Await(x) | Op::DropF(x) if x == f); i += 1; if stop { break; } }
                                }
                                std::task::Poll::Pending => rt::emit(&format!("ret {} pending", next.id)),
                            }
                        }
                        Op::Await(x) if x == f => {
                            ctx.status.lock().unwrap().insert(thread, (next.id, "await-fsync", *o));
                            rt::emit(&format!("inv {} await {}", next.id, node.id));
                            let r = rt::block_on(fut.take().unwrap());
                            rt::emit(&format!("ret {} {}", next.id, if r.is_ok() { "ok" } else { "canceled" }));
                            ctx.status.lock().unwrap().remove(&thread);
                            match r {
                                Ok(v) => check_sync_result(ctx, node, v, "future_sync", "C08"),
                                Err(_) => ctx.fail(&["C08"], format!("future_sync {} resolved to Canceled although it was awaited to completion", node.id)),
                            }
                        }
                        Op::DropF(x) if x == f => {
                            rt::emit(&format!("inv {} dropf {}", next.id, node.id));
                            let started = ctx.calls[node.id].start.load(Ordering::SeqCst) != 0;
                            drop(fut.take());
                            if started && ctx.calls[node.id].end.load(Ordering::SeqCst) == 0 { ctx.fail(&["C08"], format!("future_sync {} dropped mid-operation but its future was not destroyed", node.id)); }
                            ctx.calls[node.id].cancelled.store(true, Ordering::SeqCst);
                            rt::emit(&format!("ret {} ok", next.id));
                        }
                        other => panic!("harness: op {:?} between fsync and its await/dropf", other),
                    }
                }
                drop(fut);
                release(ctx, *o, obj, thread);
            }
            Op::Suspend(o, f) => {
                let Some(obj) = ctx.obj(*o) else { ctx.stat("skipped-dropped"); continue };
                call_begin(ctx, node, thread, *o);
                ctx.calls[node.id].accepted.store(true, Ordering::SeqCst);
                let fut = match &obj { Obj::Q(q, _) => scheduler().suspend(q), Obj::D(_) => panic!("harness: suspend on a Desync object") };
                call_end(ctx, node, thread, "ok");
                ctx.futs.lock().unwrap().insert(*f, Fut::Suspend(Box::pin(fut), node.id));
            }
            Op::Await(f) => {
                let fut = ctx.futs.lock().unwrap().remove(f);
                let Some(fut) = fut else { ctx.stat("skipped-nofuture"); continue };
                match fut {
                    Fut::Sched(fut, of) => {
                        let obj = ctx.calls[of].obj;
                        ctx.status.lock().unwrap().insert(thread, (node.id, "await", obj));
                        rt::emit(&format!("inv {} await {}", node.id, of));
                        let r = rt::block_on(fut);
                        rt::emit(&format!("ret {} {}", node.id, if r.is_ok() { "ok" } else { "canceled" }));
                        ctx.status.lock().unwrap().remove(&thread);
                        check_future_result(ctx, of, r, "future_desync");
                    }
                    Fut::Boxed(fut, of) => {
                        let obj = ctx.calls[of].obj;
                        ctx.status.lock().unwrap().insert(thread, (node.id, "await", obj));
                        rt::emit(&format!("inv {} await {}", node.id, of));
                        let r = rt::block_on(fut);
                        rt::emit(&format!("ret {} {}", node.id, if r.is_ok() { "ok" } else { "canceled" }));
                        ctx.status.lock().unwrap().remove(&thread);
                        check_future_result(ctx, of, r, "after");
                    }
                    Fut::Suspend(fut, of) => {
                        let obj = ctx.calls[of].obj;
                        ctx.status.lock().unwrap().insert(thread, (node.id, "await-suspend", obj));
                        rt::emit(&format!("inv {} await {}", node.id, of));
                        let r = rt::block_on(fut);
                        rt::emit(&format!("ret {} {}", node.id, if r.is_ok() { "ok" } else { "canceled" }));
                        ctx.status.lock().unwrap().remove(&thread);
                        match r {
                            Ok(resumer) => {
                                // C13: everything scheduled before the suspend request has completed
                                let sc = &ctx.calls[of];
                                sc.start.store(ctx.tick(), Ordering::SeqCst);
                                for (id, c) in ctx.calls.iter().enumerate() {
                                    if id != of && c.obj == obj && c.accepted.load(Ordering::SeqCst) && c.ret.load(Ordering::SeqCst) != 0
                                        && c.ret.load(Ordering::SeqCst) < sc.inv.load(Ordering::SeqCst) && c.end.load(Ordering::SeqCst) == 0 && c.kind != "suspend" && c.kind != "fsync" {
                                        ctx.fail(&["C13"], format!("suspend {} reported the queue suspended while earlier operation {} ({}) had not completed", of, id, c.kind));
                                    }
                                }
                                ctx.futs.lock().unwrap().insert(*f, Fut::Resumer(resumer, of));
                            }
                            Err(_) => ctx.fail(&["C13"], format!("suspend {} resolved to Canceled", of)),
                        }
                    }
                    Fut::Resumer(..) => panic!("harness: await of a resumer"),
                }
            }
            Op::PollOnce(f) => {
                let fut = ctx.futs.lock().unwrap().remove(f);
                let Some(mut fut) = fut else { ctx.stat("skipped-nofuture"); continue };
                let of = match &fut { Fut::Sched(_, of) | Fut::Boxed(_, of) | Fut::Suspend(_, of) | Fut::Resumer(_, of) => *of };
                if let Fut::Resumer(..) = &fut { ctx.futs.lock().unwrap().insert(*f, fut); continue }
                rt::emit(&format!("inv {} pollonce {}", node.id, of));
                // a completed future is dropped before the call is reported as returned (as block_on does)
                enum Polled { Pending, Plain(Result<u64, oneshot::Canceled>, &'static str), Susp(Result<QueueResumer, oneshot::Canceled>) }
                let polled = match &mut fut {
                    Fut::Sched(fu, _) => match poll_once(fu) { std::task::Poll::Ready(r) => Polled::Plain(r, "future_desync"), std::task::Poll::Pending => Polled::Pending },
                    Fut::Boxed(fu, _) => match poll_once(fu) { std::task::Poll::Ready(r) => Polled::Plain(r, "after"), std::task::Poll::Pending => Polled::Pending },
                    Fut::Suspend(fu, _) => match poll_once(fu) { std::task::Poll::Ready(r) => Polled::Susp(r), std::task::Poll::Pending => Polled::Pending },
                    Fut::Resumer(..) => Polled::Pending,
                };
                match polled {
                    Polled::Pending => { rt::emit(&format!("ret {} pending", node.id)); ctx.futs.lock().unwrap().insert(*f, fut); }
                    Polled::Plain(r, what) => {
                        drop(fut);
                        rt::emit(&format!("ret {} {}", node.id, if r.is_ok() { "ok" } else { "canceled" }));
                        check_future_result(ctx, of, r, what);
                    }
                    Polled::Susp(r) => {
                        drop(fut);
                        rt::emit(&format!("ret {} {}", node.id, if r.is_ok() { "ok" } else { "canceled" }));
                        if let Ok(resumer) = r { ctx.calls[of].start.store(ctx.tick(), Ordering::SeqCst); ctx.futs.lock().unwrap().insert(*f, Fut::Resumer(resumer, of)); }
                    }
                }
            }
            Op::SyncF(f) => {
                let fut = ctx.futs.lock().unwrap().remove(f);
                match fut {
                    Some(Fut::Sched(fut, of)) => {
                        let obj = ctx.calls[of].obj;
                        ctx.status.lock().unwrap().insert(thread, (node.id, "syncf", obj));
                        rt::emit(&format!("inv {} syncf {}", node.id, of));
                        let r = fut.sync();
                        rt::emit(&format!("ret {} {}", node.id, if r.is_ok() { "ok" } else { "canceled" }));
                        ctx.status.lock().unwrap().remove(&thread);
                        check_future_result(ctx, of, r, "future_desync(.sync)");
                    }
                    Some(other) => { ctx.futs.lock().unwrap().insert(*f, other); panic!("harness: syncf on a non-scheduler future"); }
                    None => ctx.stat("skipped-nofuture"),
                }
            }
            Op::DropF(f) => {
                let fut = ctx.futs.lock().unwrap().remove(f);
                if let Some(fut) = fut {
                    let of = match &fut { Fut::Sched(_, of) | Fut::Boxed(_, of) | Fut::Suspend(_, of) | Fut::Resumer(_, of) => *of };
                    rt::emit(&format!("inv {} dropf {}", node.id, of));
                    if let Fut::Resumer(..) = &fut { ctx.calls[of].end.store(ctx.tick(), Ordering::SeqCst); rt::emit(&format!("rsend {}", of)); }
                    drop(fut);
                    rt::emit(&format!("ret {} ok", node.id));
                } else { ctx.stat("skipped-nofuture"); }
            }
            Op::Resume(f) => {
                let fut = ctx.futs.lock().unwrap().remove(f);
                match fut {
                    Some(Fut::Resumer(r, of)) => {
                        rt::emit(&format!("inv {} resume {}", node.id, of));
                        ctx.calls[of].end.store(ctx.tick(), Ordering::SeqCst);
                        rt::emit(&format!("rsend {}", of));
                        r.resume();
                        rt::emit(&format!("ret {} ok", node.id));
                    }
                    Some(other) => { drop(other); ctx.stat("skipped-nofuture"); }
                    None => ctx.stat("skipped-nofuture"),
                }
            }
            Op::Open(g) => {
                rt::emit(&format!("inv {} open {}", node.id, g));
                let senders = { let mut gs = ctx.gates[*g].lock().unwrap(); gs.open = true; std::mem::take(&mut gs.waiting) };
                for s in senders { rt::emit(&format!("gsend {}", g)); s.send(()).ok(); }
                rt::emit(&format!("ret {} ok", node.id));
            }
            Op::DropObj(o) => {
                let taken = ctx.objs[*o].lock().unwrap().take();
                if let Some(obj) = taken {
                    ctx.dropobj_done[*o].store(true, Ordering::SeqCst);
                    ctx.calls[node.id].inv.store(ctx.tick(), Ordering::SeqCst);
                    release(ctx, *o, obj, thread);
                    ctx.calls[node.id].ret.store(ctx.tick(), Ordering::SeqCst);
                } else { ctx.stat("skipped-dropped"); }
            }
            Op::SetMax(n) => {
                rt::emit(&format!("inv {} setmax {}", node.id, n));
                ctx.pool_changed.store(true, Ordering::SeqCst);
                ctx.max_pool.fetch_max(*n, Ordering::SeqCst);
                scheduler().verif_set_max_threads(*n);
                rt::emit(&format!("ret {} ok", node.id));
            }
            Op::Despawn => {
                rt::emit(&format!("inv {} despawn", node.id));
                scheduler().despawn_threads_if_overloaded();
                rt::emit(&format!("ret {} ok", node.id));
            }
            Op::Yield => rt::yield_now(),
            Op::WaitCount(n) => {
                // the thread waits, without touching the API, until `n` asynchronous operations have completed: work on one
                // object must not depend on a pool thread that is blocked in a job of another object (C10)
                ctx.status.lock().unwrap().insert(thread, (node.id, "waitcount", usize::MAX));
                let mut d = ctx.done.lock().unwrap();
                while *d < *n { d = ctx.done_cv.wait(d).unwrap(); }
                drop(d);
                ctx.status.lock().unwrap().remove(&thread);
            }
            Op::PipeIn(o, c) | Op::Pipe(o, c, _) => {
                let Some(Obj::D(d)) = ctx.obj(*o) else { ctx.stat("skipped-dropped"); continue };
                let Some(rx) = ctx.receivers[*c].lock().unwrap().take() else { continue };
                let through = matches!(&node.op, Op::Pipe(..));
                let out = if let Op::Pipe(_, _, s) = &node.op { Some(*s) } else { None };
                *ctx.pipe_of_chan[*c].lock().unwrap() = Some((*o, through, out));
                let stream = CountedStream { inner: rx, chan: *c, ctx: Arc::clone(ctx) };
                let guard = FnGuard { chan: *c, ctx: Arc::clone(ctx) };
                let (c2, ch, ob) = (Arc::clone(ctx), *c, *o);
                ctx.status.lock().unwrap().insert(thread, (node.id, if through { "pipe" } else { "pipein" }, *o));
                rt::emit(&format!("inv {} {} {} {} {}", node.id, if through { "pipe" } else { "pipein" }, o, c, out.map(|s| s as i64).unwrap_or(-1)));
                if through {
                    let s = desync::pipe(Arc::clone(&d), stream, move |_p: &mut Payload, item: u64| {
                        let _g = &guard;
                        c2.pipe_item(ob, ch, item);
                        futures::future::ready(item * 2 + 1).boxed()
                    });
                    ctx.outs.lock().unwrap().insert(out.unwrap(), s);
                } else {
                    desync::pipe_in(Arc::clone(&d), stream, move |_p: &mut Payload, item: u64| {
                        let _g = &guard;
                        c2.pipe_item(ob, ch, item);
                        futures::future::ready(()).boxed()
                    });
                }
                rt::emit(&format!("ret {} ok", node.id));
                ctx.status.lock().unwrap().remove(&thread);
                release(ctx, *o, Obj::D(d), thread);
            }
            Op::Send(c, n) => {
                for _ in 0..*n {
                    let v = { let mut s = ctx.sent[*c].lock().unwrap(); let v = (*c as u64) * 1000 + s.len() as u64; s.push(v); v };
                    let tx = ctx.senders[*c].lock().unwrap().clone();
                    // a send wakes the pipe's producer on this thread: it must return (the wake-up only queues a poll operation)
                    let target = ctx.pipe_of_chan[*c].lock().unwrap().map(|(o, _, _)| o).unwrap_or(usize::MAX);
                    let through = ctx.pipe_of_chan[*c].lock().unwrap().map(|(_, t, _)| t).unwrap_or(false);
                    ctx.status.lock().unwrap().insert(thread, (node.id, if through { "send-pipe" } else { "send-pipein" }, target));
                    if let Some(tx) = tx { rt::emit(&format!("chsend {} {}", c, v)); tx.unbounded_send(v).ok(); }
                    ctx.status.lock().unwrap().remove(&thread);
                }
            }
            Op::CloseCh(c) => {
                ctx.chan_closed[*c].store(true, Ordering::SeqCst);
                let tx = ctx.senders[*c].lock().unwrap().take();
                rt::emit(&format!("chclose {}", c));
                drop(tx);
            }
            Op::Next(s) | Op::Drain(s) => {
                let drain = matches!(&node.op, Op::Drain(_));
                loop {
                    let stream = ctx.outs.lock().unwrap().remove(s);
                    let Some(mut stream) = stream else { ctx.stat("skipped-nostream"); break };
                    ctx.status.lock().unwrap().insert(thread, (node.id, "next", *s));
                    rt::emit(&format!("inv {} next {}", node.id, s));
                    let r = rt::block_on(stream.next());
                    rt::emit(&format!("ret {} {}", node.id, match r { Some(_) => "item", None => "end" }));
                    ctx.status.lock().unwrap().remove(&thread);
                    ctx.outs.lock().unwrap().insert(*s, stream);
                    match r {
                        Some(v) => { ctx.outputs.lock().unwrap().entry(*s).or_default().push(v); if !drain { break; } }
                        None => { ctx.out_ended.lock().unwrap().insert(*s, true); break; }
                    }
                }
            }
            Op::DropOut(s) => {
                let stream = ctx.outs.lock().unwrap().remove(s);
                if let Some(stream) = stream {
                    rt::emit(&format!("inv {} dropout {}", node.id, s));
                    ctx.out_dropped.lock().unwrap().insert(*s, true);
                    // dropping the output stream must return (C16): a hang here is attributed to it
                    ctx.status.lock().unwrap().insert(thread, (node.id, "dropout", *s));
                    drop(stream);
                    ctx.status.lock().unwrap().remove(&thread);
                    rt::emit(&format!("ret {} ok", node.id));
                }
            }
            Op::SetDepth(s, n) => {
                if let Some(stream) = ctx.outs.lock().unwrap().get_mut(s) { rt::emit(&format!("setdepth {} {}", s, n)); stream.set_backpressure_depth(*n); }
            }
        }
    }
}

/// Polls a future once with a waker that only records that it fired.
fn poll_once<F: Future + Unpin>(fut: &mut F) -> std::task::Poll<F::Output> {
    rt::poll_once(fut)
}

fn check_future_result(ctx: &Arc<Ctx>, of: usize, r: Result<u64, oneshot::Canceled>, what: &'static str) {
    let c = &ctx.calls[of];
    match r {
        Ok(v) => {
            if v != token(of) { ctx.fail(&["C07"], format!("{} {} resolved to {} instead of its operation's value {}", what, of, v, token(of))); }
            if c.end.load(Ordering::SeqCst) == 0 || c.cancelled.load(Ordering::SeqCst) { ctx.fail(&["C07"], format!("{} {} resolved before its operation had finished", what, of)); }
            if c.runs.load(Ordering::SeqCst) != 1 { ctx.fail(&["C07", "C03"], format!("{} {} resolved with its operation run {} times", what, of, c.runs.load(Ordering::SeqCst))); }
        }
        Err(_) => ctx.fail(&["C07"], format!("{} {} resolved to Canceled although its operation was accepted on a live object", what, of)),
    }
}

// ---- one execution --------------------------------------------------------------------------

pub fn make_ctx(prog: &Program) -> Arc<Ctx> {
    let (threads, ncalls) = number(prog);
    let mut calls: Vec<CallRec> = (0..ncalls).map(|_| CallRec::default()).collect();
    fn fill(nodes: &[Node], calls: &mut Vec<CallRec>) {
        for n in nodes {
            let (obj, gate) = match &n.op {
                Op::Desync(o, _) | Op::Sync(o, _) | Op::TrySync(o, _) | Op::Suspend(o, _) | Op::DropObj(o) => (*o, None),
                Op::FDesync(o, g, _) | Op::FSync(o, g, _) => (*o, *g),
                Op::After(o, g, _) => (*o, Some(*g)),
                Op::PipeIn(o, _) | Op::Pipe(o, _, _) => (*o, None),
                _ => (usize::MAX, None),
            };
            calls[n.id].kind = n.op.kind();
            calls[n.id].obj = obj;
            calls[n.id].gate = gate;
            fill(&n.body, calls);
        }
    }
    for t in &threads { fill(t, &mut calls); }
    let n = prog.objects;
    Arc::new(Ctx {
        prog: prog.clone(),
        ncalls,
        objs: (0..n).map(|_| StdMutex::new(None)).collect(),
        occ: (0..n).map(|_| AtomicUsize::new(0)).collect(),
        dead: (0..n).map(|_| AtomicBool::new(false)).collect(),
        drops: (0..n).map(|_| AtomicUsize::new(0)).collect(),
        dropobj_done: (0..n).map(|_| AtomicBool::new(false)).collect(),
        gates: (0..prog.gates).map(|_| StdMutex::new(GateState { open: false, waiting: vec![] })).collect(),
        futs: StdMutex::new(HashMap::new()),
        calls,
        clock: AtomicU64::new(0),
        fails: StdMutex::new(vec![]),
        status: StdMutex::new(HashMap::new()),
        main_waiting: AtomicBool::new(false),
        done: rt::Mutex::new(0),
        done_cv: rt::Condvar::new_silent(),
        max_pool: AtomicUsize::new(prog.pool),
        pool_changed: AtomicBool::new(false),
        stats: StdMutex::new(HashMap::new()),
        senders: (0..prog.chans).map(|_| StdMutex::new(None)).collect(),
        receivers: (0..prog.chans).map(|_| StdMutex::new(None)).collect(),
        outs: StdMutex::new(HashMap::new()),
        sent: (0..prog.chans).map(|_| StdMutex::new(vec![])).collect(),
        processed: (0..prog.chans).map(|_| StdMutex::new(vec![])).collect(),
        outputs: StdMutex::new(HashMap::new()),
        out_ended: StdMutex::new(HashMap::new()),
        pipe_of_chan: (0..prog.chans).map(|_| StdMutex::new(None)).collect(),
        chan_closed: (0..prog.chans).map(|_| AtomicBool::new(false)).collect(),
        out_dropped: StdMutex::new(HashMap::new()),
        stream_drops: (0..prog.chans).map(|_| AtomicUsize::new(0)).collect(),
        fn_drops: (0..prog.chans).map(|_| AtomicUsize::new(0)).collect(),
    })
}

/// The body of one execution.  Must be called inside the runtime (a shuttle execution, or a plain
/// thread with the std back end).  Oracle failures are left in `ctx.fails`; a hang shows up as a
/// deadlock reported by the runtime while `ctx.status` / `ctx.main_waiting` say who was stuck.
pub fn execute(ctx: &Arc<Ctx>) {
    let prog = &ctx.prog;
    let (threads, _) = number(prog);
    scheduler().verif_set_max_threads(prog.pool);
    for (o, k) in prog.kinds.chars().enumerate() {
        let obj = if k == 'd' {
            Obj::D(Arc::new(Desync::new(Payload { obj: o, ctx: Arc::clone(ctx) })))
        } else {
            Obj::Q(scheduler::queue(), Arc::new(Payload { obj: o, ctx: Arc::clone(ctx) }))
        };
        *ctx.objs[o].lock().unwrap() = Some(obj);
    }
    for c in 0..prog.chans {
        let (tx, rx) = mpsc::unbounded::<u64>();
        *ctx.senders[c].lock().unwrap() = Some(tx);
        *ctx.receivers[c].lock().unwrap() = Some(rx);
    }
    rt::emit("setup-done");

    let mut handles = vec![];
    for (t, ops) in threads.iter().enumerate() {
        let (c, ops) = (Arc::clone(ctx), ops.clone());
        handles.push(rt::spawn(move || { run_ops(&c, &ops, t); }));
    }
    for h in handles { h.join().ok(); }
    rt::emit("callers-done");

    let flush_needed = prog.pool == 0 || ctx.max_pool.load(Ordering::SeqCst) == 0 || ctx.pool_changed.load(Ordering::SeqCst) || prog.chans > 0;
    let expected = ctx.calls.iter().filter(|c| c.accepted.load(Ordering::SeqCst) && matches!(c.kind, "desync" | "fdesync" | "after")).count();
    let wait_all = |ctx: &Arc<Ctx>| {
        ctx.main_waiting.store(true, Ordering::SeqCst);
        let mut d = ctx.done.lock().unwrap();
        while *d < expected { d = ctx.done_cv.wait(d).unwrap(); }
        ctx.main_waiting.store(false, Ordering::SeqCst);
    };
    // every remaining kept future is dropped (its operation must still run: C07); each drop is an event of its own, because
    // dropping a future that a queue is waiting to be polled by hands that queue back.  Resumers (and suspend futures) go first:
    // they hold their queues suspended.  With a pool, the futures of asynchronous operations are kept alive a little longer:
    // an operation whose future was polled once and then left alone must be carried on by the pool when it is woken
    // (C06, C03), without anybody polling or dropping the future.
    let mut dropped = 0;
    let mut drop_kept = |ctx: &Arc<Ctx>, resumers: bool| {
        let mut keys: Vec<usize> = ctx.futs.lock().unwrap().keys().cloned().collect();
        keys.sort();
        for k in keys {
            let is_res = matches!(ctx.futs.lock().unwrap().get(&k), Some(Fut::Resumer(..)) | Some(Fut::Suspend(..)));
            if is_res != resumers { continue; }
            let fut = ctx.futs.lock().unwrap().remove(&k);
            if let Some(fut) = fut {
                let of = match &fut { Fut::Sched(_, of) | Fut::Boxed(_, of) | Fut::Suspend(_, of) | Fut::Resumer(_, of) => *of };
                let id = ctx.ncalls + 3_000_000 + dropped;
                dropped += 1;
                rt::emit(&format!("inv {} dropf {}", id, of));
                if let Fut::Resumer(..) = &fut { ctx.calls[of].end.store(ctx.tick(), Ordering::SeqCst); rt::emit(&format!("rsend {}", of)); }
                drop(fut);
                rt::emit(&format!("ret {} ok", id));
            }
        }
    };
    drop_kept(ctx, true);
    if !flush_needed {
        ctx.status.lock().unwrap().insert(1000, (usize::MAX, "wait-kept-futures", usize::MAX));
        wait_all(ctx);
        ctx.status.lock().unwrap().remove(&1000);
    }
    drop_kept(ctx, false);

    // With no pool thread, accepted asynchronous work only runs when a caller runs the queue:
    // flush with sync calls first (C04 makes those return).
    if flush_needed {
        for _pass in 0..(prog.objects + 1) {
            for o in 0..prog.objects {
                if let Some(obj) = ctx.obj(o) {
                    ctx.status.lock().unwrap().insert(1000, (usize::MAX, "flush-sync", o));
                    let id = ctx.ncalls + ctx.clock.fetch_add(1, Ordering::SeqCst) as usize;
                    rt::emit(&format!("inv {} sync {}", id, o));
                    let body = || { rt::emit(&format!("beg {}", id)); rt::emit(&format!("end {}", id)); };
                    match &obj { Obj::D(d) => d.sync(|_| body()), Obj::Q(q, _) => scheduler::sync(q, || body()) };
                    rt::emit(&format!("ret {} ok", id));
                    ctx.status.lock().unwrap().remove(&1000);
                }
            }
        }
    }

    // Wait until every accepted asynchronous operation has completed, without touching the API (C03)
    wait_all(ctx);
    rt::emit("all-completed");
    if prog.chans > 0 { check_pipes(ctx); }

    // C17: pool size against the configured maximum
    let peak = vsched::thread::peak_live_named();
    if !ctx.pool_changed.load(Ordering::SeqCst) && peak > prog.pool {
        ctx.fail(&["C17"], format!("{} pool threads alive at once with a maximum of {}", peak, prog.pool));
    }
    if ctx.max_pool.load(Ordering::SeqCst) == 0 && peak > 0 { ctx.fail(&["C17"], format!("{} pool threads created with a maximum of 0", peak)); }

    // shut the pool down; once the threads are gone everything has gone quiet
    let tid = ctx.ncalls + 1_000_000;
    rt::emit(&format!("inv {} setmax 0", tid));
    scheduler().verif_set_max_threads(0);
    rt::emit(&format!("ret {} ok", tid));
    ctx.status.lock().unwrap().insert(1000, (usize::MAX, "despawn", usize::MAX));
    rt::emit(&format!("inv {} despawn", tid + 1));
    let spawned_before = vsched::thread::spawned_named();
    scheduler().despawn_threads_if_overloaded();
    // every pool thread that existed when the call was made is gone when it returns (they are joined); only a thread
    // spawned during or after the call can be left (see below)
    let old_alive = vsched::thread::live_named_before(spawned_before);
    rt::emit(&format!("ret {} ok", tid + 1));
    ctx.status.lock().unwrap().remove(&1000);
    if old_alive != 0 { ctx.fail(&["C17"], format!("despawn_threads_if_overloaded returned with {} of the pool threads that existed when it was called still alive and a maximum of 0", old_alive)); }
    // A scheduling call that read the old maximum before it was lowered may still spawn one thread afterwards (the maximum is
    // read in one critical section and used in the next): the property is about maxima changed between phases, so such
    // stragglers are collected by despawning again; a thread that survives that is a violation.
    let mut rounds = 0;
    while vsched::thread::live_named() != 0 && rounds < 8 {
        rounds += 1;
        for _ in 0..50 { rt::yield_now(); }
        let id = tid + 1 + rounds;
        ctx.status.lock().unwrap().insert(1000, (usize::MAX, "despawn", usize::MAX));
        rt::emit(&format!("inv {} despawn", id));
        scheduler().despawn_threads_if_overloaded();
        rt::emit(&format!("ret {} ok", id));
        ctx.status.lock().unwrap().remove(&1000);
    }
    if vsched::thread::live_named() != 0 { ctx.fail(&["C17"], format!("despawn_threads_if_overloaded returned with {} pool threads alive and a maximum of 0", vsched::thread::live_named())); }
    rt::emit("quiet");

    // C03 / C09: nothing queued or marked running; try_sync on an idle object succeeds
    vsched::set_tracing_paused(true);
    for o in 0..prog.objects {
        if let Some(obj) = ctx.obj(o) {
            if let Obj::Q(q, _) = &obj {
                let dbg = format!("{:?}", q);
                if !dbg.contains("State: Idle, Pending: 0") { ctx.fail(&["C03"], format!("object {} at quiescence: {}", o, dbg)); }
            }
            let r = match &obj { Obj::D(d) => d.try_sync(|_| 1), Obj::Q(q, _) => scheduler::try_sync(q, || 1) };
            if r.is_err() { ctx.fail(&["C09", "C03"], format!("try_sync on object {} returned Busy at quiescence", o)); }
        }
    }
    // per-operation verdicts
    for (id, c) in ctx.calls.iter().enumerate() {
        let runs = c.runs.load(Ordering::SeqCst);
        if c.accepted.load(Ordering::SeqCst) && matches!(c.kind, "desync" | "fdesync" | "after" | "sync") && runs != 1 {
            ctx.fail(&["C03"], format!("accepted operation {} ({}) ran {} times", id, c.kind, runs));
        }
        if c.busy.load(Ordering::SeqCst) && runs != 0 { ctx.fail(&["C09"], format!("try_sync {} returned Busy but its closure ran", id)); }
    }
    check_order(ctx);
    // free the objects: exactly once each
    for o in 0..prog.objects {
        let obj = ctx.objs[o].lock().unwrap().take();
        let was_d = matches!(obj, Some(Obj::D(_))) || (prog.kinds.as_bytes()[o] == b'd');
        drop(obj);
        let piped_through = (0..prog.chans).any(|c| matches!(*ctx.pipe_of_chan[c].lock().unwrap(), Some((oo, true, _)) if oo == o));
        if was_d && !piped_through && ctx.drops[o].load(Ordering::SeqCst) != 1 { ctx.fail(&["C05"], format!("object {} freed {} times by the end of the run", o, ctx.drops[o].load(Ordering::SeqCst))); }
    }
    vsched::set_tracing_paused(false);
    rt::emit("finished");
}

/// C02 (and the ordering halves of C13, C08): real-time order of scheduling calls is the order of effects.
fn check_order(ctx: &Arc<Ctx>) {
    let n = ctx.calls.len();
    for a in 0..n {
        let ca = &ctx.calls[a];
        if !ca.accepted.load(Ordering::SeqCst) || !matches!(ca.kind, "desync" | "sync" | "trysync" | "fdesync" | "fsync" | "after" | "suspend") { continue; }
        let ret_a = ca.ret.load(Ordering::SeqCst);
        if ret_a == 0 { continue; }
        for b in 0..n {
            if a == b { continue; }
            let cb = &ctx.calls[b];
            if cb.obj != ca.obj || !cb.accepted.load(Ordering::SeqCst) || !matches!(cb.kind, "desync" | "sync" | "trysync" | "fdesync" | "fsync" | "after") { continue; }
            let inv_b = cb.inv.load(Ordering::SeqCst);
            let start_b = cb.start.load(Ordering::SeqCst);
            let end_a = ca.end.load(Ordering::SeqCst);
            let start_a = ca.start.load(Ordering::SeqCst);
            if ca.kind == "suspend" {
                // no operation of the object may start between the moment the awaiting thread saw the suspend future resolve
                // (start_a) and the moment the resumer is used or dropped (end_a), whenever it was scheduled: one scheduled
                // before the suspension has completed by then, one scheduled after it (or concurrently with it: it is ordered
                // one way or the other) waits
                if inv_b != 0 && start_b != 0 && start_a != 0 && (end_a == 0 || end_a > start_b) && start_b > start_a {
                    ctx.fail(&["C13"], format!("operation {} ({}) started while the queue was suspended by suspend {}", b, cb.kind, a));
                }
                continue;
            }
            if ca.kind == "fsync" && ca.via_desync.load(Ordering::SeqCst) && start_a != 0 && start_b > start_a {
                // the operation of a future_sync is over when the future its closure returned has been destroyed: until then it
                // may hold the protected value, so nothing later may begin - whether it ran to completion or was cancelled
                let destroyed_a = ca.destroyed.load(Ordering::SeqCst);
                if destroyed_a != 0 && start_b < destroyed_a {
                    ctx.fail(&["C08", "C01"], format!("operation {} ({}) began (t={}) before the future of future_sync {} was destroyed (t={})", b, cb.kind, start_b, a, destroyed_a));
                }
            }
            if inv_b == 0 || start_b == 0 || ret_a >= inv_b { continue; }
            // A returned before B was invoked: A finishes before B starts
            if ca.kind == "fsync" && start_a == 0 { continue; } // never started (cancelled before its slot)
            if end_a == 0 || end_a > start_b {
                let p: &[&'static str] = if ca.kind == "fsync" { &["C02", "C08"] } else { &["C02"] };
                ctx.fail(p, format!("call {} ({}) returned before call {} ({}) was invoked, but {} started (t={}) before {} finished (t={})", a, ca.kind, b, cb.kind, b, start_b, a, end_a));
            }
        }
    }
}

/// Which properties a hang contradicts, from who was blocked where.
pub fn classify_deadlock(ctx: &Arc<Ctx>) -> Failure {
    let status = ctx.status.lock().unwrap().clone();
    let mut props: Vec<&'static str> = vec![];
    let mut what = String::from("hang:");
    let mut add = |p: &'static str| if !props.contains(&p) { props.push(p); };
    for (t, (id, kind, obj)) in status.iter() {
        what.push_str(&format!(" thread {} blocked in {} (call {}, object {});", t, kind, *id as isize, *obj as isize));
        match *kind {
            "sync" | "flush-sync" => { add("C04"); }
            "dropobj" => { add("C05"); add("C04"); }
            "syncf" => { add("C07"); add("C04"); }
            "await" => { add("C07"); add("C06"); }
            "await-fsync" => { add("C08"); }
            "await-suspend" => { add("C13"); }
            "despawn" => { add("C17"); }
            "wait-kept-futures" => { add("C06"); add("C03"); add("C07"); }
            "waitcount" => { add("C10"); add("C03"); }
            "next" => { add("C12"); }
            "dropout" => { add("C16"); }
            "pipe" | "pipein" => { add("C11"); add("C04"); }
            "send-pipein" => { add("C11"); }
            "send-pipe" => { add("C12"); }
            "desync" | "fdesync" | "after" | "fsync" | "trysync" | "suspend" => { add("C03"); if *kind == "trysync" { add("C09"); } }
            _ => {}
        }
    }
    if ctx.main_waiting.load(Ordering::SeqCst) {
        let pending: Vec<usize> = ctx.calls.iter().enumerate().filter(|(_, c)| c.accepted.load(Ordering::SeqCst) && matches!(c.kind, "desync" | "fdesync" | "after") && c.end.load(Ordering::SeqCst) == 0).map(|(i, _)| i).collect();
        what.push_str(&format!(" accepted operations never completed: {:?};", pending));
        add("C03");
        if pending.iter().any(|i| ctx.calls[*i].gate.is_some() && ctx.calls[*i].start.load(Ordering::SeqCst) != 0) { add("C06"); }
        if ctx.prog.objects > 1 { add("C10"); }
    }
    // C09: a Busy try_sync must leave the object undisturbed; a hang on an object on which try_sync answered Busy implicates it
    let stuck_objs: Vec<usize> = status.values().map(|(_, _, o)| *o).chain(ctx.calls.iter().filter(|c| c.accepted.load(Ordering::SeqCst) && c.end.load(Ordering::SeqCst) == 0).map(|c| c.obj)).collect();
    if ctx.calls.iter().any(|c| c.kind == "trysync" && c.busy.load(Ordering::SeqCst) && stuck_objs.contains(&c.obj)) { add("C09"); }
    // C13: a queue that was suspended and has been resumed must continue; a hang on such an object implicates it
    if ctx.calls.iter().any(|c| c.kind == "suspend" && c.end.load(Ordering::SeqCst) != 0 && stuck_objs.contains(&c.obj)) { add("C13"); }
    if props.is_empty() { props.push("C03"); }
    Failure { props, what }
}

/// Pipe oracles (C11, C12, C16), evaluated once every caller thread is done and the targets were flushed.
fn check_pipes(ctx: &Arc<Ctx>) {
    let prog = &ctx.prog;
    // senders still held by the harness are dropped now: the inputs fall silent (not closed unless the program closed them)
    let shut = |c: usize| ctx.stream_drops[c].load(Ordering::SeqCst) == 1 && ctx.fn_drops[c].load(Ordering::SeqCst) == 1;
    // give disposal jobs (they run on the crate's internal REFERENCE_CHUTE queue) a bounded chance to run
    for _ in 0..3000 {
        let mut settled = true;
        for c in 0..prog.chans {
            let Some((_o, through, out)) = *ctx.pipe_of_chan[c].lock().unwrap() else { continue };
            let out_dropped = through && out.map(|s| *ctx.out_dropped.lock().unwrap().get(&s).unwrap_or(&false)).unwrap_or(false);
            let out_ended = through && out.map(|s| *ctx.out_ended.lock().unwrap().get(&s).unwrap_or(&false)).unwrap_or(false);
            let must_be_shut = (ctx.chan_closed[c].load(Ordering::SeqCst) && (!through || out_ended)) || out_dropped;
            if must_be_shut && !shut(c) { settled = false; }
            // the reference held by a dropped output stream is released by a job on the crate's disposal queue
            let out_gone = through && out.map(|s| *ctx.out_dropped.lock().unwrap().get(&s).unwrap_or(&false)).unwrap_or(false);
            if out_gone { if let Some(Obj::D(d)) = ctx.obj(_o) { if Arc::strong_count(&d) > 2 { settled = false; } } }
        }
        if settled { break; }
        rt::yield_now();
    }
    for c in 0..prog.chans {
        let Some((o, through, out)) = *ctx.pipe_of_chan[c].lock().unwrap() else { continue };
        let sent = ctx.sent[c].lock().unwrap().clone();
        let processed = ctx.processed[c].lock().unwrap().clone();
        let alive = ctx.objs[o].lock().unwrap().is_some();
        // every item once, in order
        if processed.len() > sent.len() || processed[..] != sent[..processed.len()] {
            ctx.fail(&["C11", "C12"], format!("pipe on channel {} processed {:?} but the stream yielded {:?}", c, processed, sent));
        }
        if !through && alive && processed.len() != sent.len() {
            ctx.fail(&["C11"], format!("pipe_in on channel {}: {} of {} items processed at quiescence", c, processed.len(), sent.len()));
        }
        if through {
            let s = out.unwrap();
            let outs = ctx.outputs.lock().unwrap().get(&s).cloned().unwrap_or_default();
            let want: Vec<u64> = sent.iter().take(outs.len()).map(|v| v * 2 + 1).collect();
            if outs != want { ctx.fail(&["C12"], format!("pipe on channel {} delivered {:?}, expected {:?}", c, outs, want)); }
            if *ctx.out_ended.lock().unwrap().get(&s).unwrap_or(&false) {
                if !ctx.chan_closed[c].load(Ordering::SeqCst) { ctx.fail(&["C12"], format!("output stream {} ended although its input has not ended", s)); }
                if outs.len() != sent.len() { ctx.fail(&["C12"], format!("output stream {} ended after {} of {} items", s, outs.len(), sent.len())); }
            }
            if *ctx.out_dropped.lock().unwrap().get(&s).unwrap_or(&false) && !shut(c) {
                ctx.fail(&["C16"], format!("output stream {} was dropped but the pipe did not shut down (input stream drops {}, closure drops {})", s, ctx.stream_drops[c].load(Ordering::SeqCst), ctx.fn_drops[c].load(Ordering::SeqCst)));
            }
        }
        // (a `pipe` whose consumer has stopped reading may be parked on back-pressure with input still unread: it is
        // released when the consumer reads to the end or drops the stream, not before)
        let consumer_done = !through || out.map(|s| *ctx.out_ended.lock().unwrap().get(&s).unwrap_or(&false) || *ctx.out_dropped.lock().unwrap().get(&s).unwrap_or(&false)).unwrap_or(true);
        if ctx.chan_closed[c].load(Ordering::SeqCst) && alive && consumer_done && !shut(c) {
            ctx.fail(&["C11", "C12"], format!("input {} ended but the pipe did not release its stream and closure (stream drops {}, closure drops {})", c, ctx.stream_drops[c].load(Ordering::SeqCst), ctx.fn_drops[c].load(Ordering::SeqCst)));
        }
        // weak reference only: a finished or shut-down pipe holds no strong reference to its target
        if alive && (ctx.chan_closed[c].load(Ordering::SeqCst) || !through || shut(c)) {
            if let Some(Obj::D(d)) = ctx.obj(o) {
                let out_gone = out.map(|s| *ctx.out_dropped.lock().unwrap().get(&s).unwrap_or(&false)).unwrap_or(true);
                let expect = 2 + if through && !out_gone { 1 } else { 0 };   // the slot and this temporary clone (+ the output stream, which keeps its target alive until it is dropped)
                let pipes_on_obj = (0..prog.chans).filter(|cc| matches!(*ctx.pipe_of_chan[*cc].lock().unwrap(), Some((oo, _, _)) if oo == o)).count();
                if pipes_on_obj == 1 && Arc::strong_count(&d) > expect { ctx.fail(&["C11", "C16"], format!("object {} has {} strong references at quiescence, expected {}", o, Arc::strong_count(&d), expect)); }
            }
        }
    }
}
