//! harness: runs programs against the real desync crate (built from a copy of /repo's working tree
//! with --cfg desync_verif) under shuttle's controlled scheduler, judges every execution with the
//! property oracles and writes the event traces the Lean model replays.
//!
//!   harness explore --programs <file|gen:N> [--gen-profile all|closures|futures|...] --seed S
//!                   --scheds random,pct2,pct3 --iters K [--trace-out F] [--max-traces N]
//!   harness replay  --program "<text>" --schedule 0,1,1,2 [--trace-out F]
//!   harness gen     --count N --seed S [--gen-profile P]          (prints programs)

mod exec;
mod program;
mod rt;

use exec::{classify_deadlock, execute, make_ctx, Ctx, Failure};
use program::{generate, generate_pipes, GenConfig, Program, Rng};

use shuttle::scheduler::{DfsScheduler, PctScheduler, RandomScheduler, ReplayScheduler, Schedule, Scheduler, Task, TaskId};
use shuttle::{Config, FailurePersistence, MaxSteps, Runner};

use std::collections::BTreeMap;
use std::io::Write;
use std::sync::{Arc, Mutex};

struct Recording {
    inner: Box<dyn Scheduler + Send>,
    rec: Arc<Mutex<Vec<usize>>>,
}

impl Scheduler for Recording {
    fn new_execution(&mut self) -> Option<Schedule> {
        let r = self.inner.new_execution();
        self.rec.lock().unwrap().clear();
        r
    }
    fn next_task(&mut self, runnable: &[&Task], current: Option<TaskId>, is_yielding: bool) -> Option<TaskId> {
        let t = self.inner.next_task(runnable, current, is_yielding);
        if let Some(t) = t { self.rec.lock().unwrap().push(usize::from(t)); }
        t
    }
    fn next_u64(&mut self) -> u64 { self.inner.next_u64() }
}

fn json_str(s: &str) -> String {
    let mut o = String::from("\"");
    for c in s.chars() {
        match c { '"' => o.push_str("\\\""), '\\' => o.push_str("\\\\"), '\n' => o.push_str("\\n"), c if (c as u32) < 0x20 => o.push(' '), c => o.push(c) }
    }
    o.push('"');
    o
}

#[derive(Default)]
struct Shared {
    cur: Option<Arc<Ctx>>,
    executions: usize,
    events: usize,
    failures: Vec<(Failure, Vec<usize>)>,
    trace_out: Option<std::fs::File>,
    traces_left: usize,
    stats: BTreeMap<String, usize>,
    header: String,
    rec: Option<Arc<Mutex<Vec<usize>>>>,
    /// the batch being explored (for the failure lines, which are written as soon as an execution fails)
    pname: String,
    bseed: u64,
}

fn make_sched(kind: &str, seed: u64, iters: usize) -> Box<dyn Scheduler + Send> {
    if kind == "random" { Box::new(RandomScheduler::new_from_seed(seed, iters)) }
    else if let Some(d) = kind.strip_prefix("pct") { Box::new(PctScheduler::new_from_seed(seed, d.parse().unwrap_or(2), iters)) }
    else if kind == "dfs" { Box::new(DfsScheduler::new(Some(iters), false)) }
    else { panic!("unknown scheduler {}", kind) }
}

fn config() -> Config {
    let mut c = Config::new();
    c.failure_persistence = FailurePersistence::None;
    c.max_steps = MaxSteps::FailAfter(200_000);
    c.stack_size = 0x40000;
    c
}

/// Runs `iters` executions of `prog` under scheduler `kind`; failures and traces go to `shared`.
fn run_batch(prog: &Program, kind: &str, seed: u64, iters: usize, shared: &Arc<Mutex<Shared>>, replay: Option<Vec<usize>>) {
    let mut remaining = iters;
    let mut seed = seed;
    while remaining > 0 {
        let rec = Arc::new(Mutex::new(Vec::new()));
        let inner: Box<dyn Scheduler + Send> = match &replay {
            Some(ids) => { let mut r = ReplayScheduler::new_from_schedule(Schedule::new_from_task_ids(seed, ids.iter().copied())); r.set_allow_incomplete(); Box::new(r) }
            None => make_sched(kind, seed, remaining),
        };
        shared.lock().unwrap().rec = Some(Arc::clone(&rec));
        let mut inner = inner;
        let sched = Recording { inner: { let _ = &mut inner; inner }, rec: Arc::clone(&rec) };
        let runner = Runner::new(sched, config());
        let before = shared.lock().unwrap().executions;
        let (p2, s2) = (prog.clone(), Arc::clone(shared));
        let kind2 = kind.to_string();
        let result = std::panic::catch_unwind(std::panic::AssertUnwindSafe(move || {
            runner.run(move || {
                vsched::begin_execution();
                vsched::set_tracing(true);
                let ctx = make_ctx(&p2);
                { let mut s = s2.lock().unwrap(); s.cur = Some(Arc::clone(&ctx)); s.executions += 1; }
                execute(&ctx);
                finish_execution(&s2, &ctx, &kind2, "ok", None);
            })
        }));
        let done = shared.lock().unwrap().executions - before;
        match result {
            Ok(_) => { remaining = 0; }
            Err(payload) => {
                let msg = payload.downcast_ref::<String>().cloned().or_else(|| payload.downcast_ref::<&str>().map(|s| s.to_string())).unwrap_or_default();
                let ctx = shared.lock().unwrap().cur.clone();
                // PCT refuses to go on when its first (oldest-task-first) execution never had two runnable tasks
                if msg.contains("did not exercise any concurrency") { break; }
                if let Some(ctx) = ctx {
                    if msg.contains("did not exercise any concurrency") { if std::env::var("HARNESS_PANIC_MSG").is_ok() { eprintln!("NOCONC {}", prog.to_text()); } remaining = 0; continue; }
                    let fail = if msg.contains("deadlock") { classify_deadlock(&ctx) }
                               else if msg.contains("max_steps") { Failure { props: vec!["C03", "C04"], what: format!("livelock: {}", msg) } }
                               else { Failure { props: vec!["C14", "C03"], what: format!("panic in execution: {}", msg.chars().take(300).collect::<String>()) } };
                    ctx.fails.lock().unwrap().push(fail);
                    let end = if msg.contains("deadlock") { "deadlock" } else { "panic" };
                    finish_execution(shared, &ctx, kind, end, Some(rec.lock().unwrap().clone()));
                }
                remaining = remaining.saturating_sub(done.max(1));
                seed = seed.wrapping_mul(6364136223846793005).wrapping_add(1442695040888963407);
                if replay.is_some() { remaining = 0; }
            }
        }
        // the schedule of a failing-but-completed execution is not kept by the runner; re-derive on demand
        let _ = rec;
    }
}

fn finish_execution(shared: &Arc<Mutex<Shared>>, ctx: &Arc<Ctx>, kind: &str, end: &str, schedule: Option<Vec<usize>>) {
    let trace = vsched::take_trace();
    vsched::set_tracing(false);
    let mut s = shared.lock().unwrap();
    s.events += trace.len();
    for (k, v) in ctx.stats.lock().unwrap().iter() { *s.stats.entry(k.to_string()).or_insert(0) += v; }
    for c in ctx.calls.iter() { if c.inv.load(std::sync::atomic::Ordering::SeqCst) != 0 { *s.stats.entry(format!("op-{}", c.kind)).or_insert(0) += 1; } }
    let fails: Vec<Failure> = std::mem::take(&mut *ctx.fails.lock().unwrap());
    let failed = !fails.is_empty();
    let schedule = schedule.or_else(|| s.rec.as_ref().map(|r| r.lock().unwrap().clone()));
    for f in fails {
        // written and flushed at once: an execution that goes on to abort the process (a second panic inside a destructor while
        // a deadlocked execution is torn down) must not take the failures found so far with it
        let props: Vec<String> = f.props.iter().map(|p| json_str(p)).collect();
        let sch: Vec<String> = schedule.clone().unwrap_or_default().iter().map(|x| x.to_string()).collect();
        let mut out = std::io::stdout();
        let _ = writeln!(out, "{{\"kind\":\"failure\",\"program_name\":{},\"program\":{},\"sched\":{},\"seed\":{},\"props\":[{}],\"what\":{},\"schedule\":\"{}\"}}",
            json_str(&s.pname), json_str(&ctx.prog.to_text()), json_str(kind), s.bseed, props.join(","), json_str(&f.what), sch.join(","));
        let _ = out.flush();
        s.failures.push((f, schedule.clone().unwrap_or_default()));
    }
    if s.traces_left > 0 || failed {
        let header = s.header.clone();
        if let Some(out) = s.trace_out.as_mut() {
            let _ = writeln!(out, "#exec {} sched={} {}", header, kind, ctx.prog.to_text());
            for l in &trace { let _ = writeln!(out, "{}", l); }
            let _ = writeln!(out, "#end {}{}", end, if failed { " oracle-failed" } else { "" });
        }
        if s.traces_left > 0 { s.traces_left -= 1; }
    }
    s.cur = None;
}

fn arg<'a>(args: &'a [String], name: &str) -> Option<&'a str> {
    args.iter().position(|a| a == name).and_then(|i| args.get(i + 1)).map(|s| s.as_str())
}

fn profile(name: &str) -> GenConfig {
    let mut c = GenConfig::default();
    match name {
        "all" => {}
        "closures" => { c.futures = false; c.fsync = false; c.suspend = false; }
        "nopool0" => { c.min_pool = 1; }
        "pool0" => { c.max_pool = 0; }
        "futures" => { c.trysync = false; c.drops = false; c.min_pool = 1; }
        other => panic!("unknown profile {}", other),
    }
    c
}

fn main() {
    let args: Vec<String> = std::env::args().collect();
    let cmd = args.get(1).map(|s| s.as_str()).unwrap_or("");
    if std::env::var("HARNESS_PANIC_MSG").is_ok() {
        std::panic::set_hook(Box::new(|info| { eprintln!("PANIC: {}", info.to_string().chars().take(400).collect::<String>()); }));
    } else {
        std::panic::set_hook(Box::new(|_| {}));
    }
    let seed: u64 = arg(&args, "--seed").and_then(|s| s.parse().ok()).unwrap_or(1);
    match cmd {
        "gen" => {
            let n: usize = arg(&args, "--count").and_then(|s| s.parse().ok()).unwrap_or(10);
            let cfg = profile(arg(&args, "--gen-profile").unwrap_or("all"));
            let mut rng = Rng::new(seed);
            for _ in 0..n { println!("{}", generate(&mut rng, &cfg).to_text()); }
        }
        "explore" | "replay" => {
            let shared = Arc::new(Mutex::new(Shared::default()));
            if let Some(path) = arg(&args, "--trace-out") {
                let mut s = shared.lock().unwrap();
                s.trace_out = Some(std::fs::File::create(path).expect("trace file"));
                s.traces_left = arg(&args, "--max-traces").and_then(|s| s.parse().ok()).unwrap_or(usize::MAX);
            }
            let mut programs: Vec<(String, Program)> = vec![];
            if cmd == "replay" {
                programs.push(("replay".into(), Program::parse(arg(&args, "--program").expect("--program")).expect("program")));
            } else {
                let src = arg(&args, "--programs").expect("--programs");
                if let Some(n) = src.strip_prefix("gen:") {
                    let pname = arg(&args, "--gen-profile").unwrap_or("all");
                    let mut rng = Rng::new(seed);
                    if pname == "pipes" {
                        for i in 0..n.parse::<usize>().expect("count") { programs.push((format!("pipe{}", i), generate_pipes(&mut rng))); }
                    } else {
                        let cfg = profile(pname);
                        for i in 0..n.parse::<usize>().expect("count") { programs.push((format!("gen{}", i), generate(&mut rng, &cfg))); }
                    }
                } else {
                    let text = std::fs::read_to_string(src).expect("programs file");
                    for (i, line) in text.lines().enumerate() {
                        let line = line.trim();
                        if line.is_empty() || line.starts_with('#') { continue; }
                        let (name, body) = match line.split_once(':') { Some((n, b)) if !n.contains(' ') => (n.to_string(), b), _ => (format!("p{}", i), line) };
                        programs.push((name, Program::parse(body).unwrap_or_else(|e| panic!("program {}: {}", i, e))));
                    }
                }
            }
            let scheds: Vec<String> = arg(&args, "--scheds").unwrap_or("random").split(',').map(|s| s.to_string()).collect();
            let iters: usize = arg(&args, "--iters").and_then(|s| s.parse().ok()).unwrap_or(100);
            let replay: Option<Vec<usize>> = arg(&args, "--schedule").map(|s| s.split(',').filter(|x| !x.is_empty()).map(|x| x.parse().expect("task id")).collect());
            let max_fail: usize = arg(&args, "--max-failures").and_then(|s| s.parse().ok()).unwrap_or(20);
            let mut out = std::io::stdout();
            let mut total_exec = 0;
            // `--shard i/n`: this process takes the programs whose index is i modulo n (seeds depend on the index only, so the
            // union of the shards is exactly the unsharded run)
            let shard: Option<(usize, usize)> = arg(&args, "--shard").and_then(|s| s.split_once('/').map(|(a, b)| (a.parse().expect("shard index"), b.parse().expect("shard count"))));
            for (pi, (name, prog)) in programs.iter().enumerate() {
                if let Some((i, n)) = shard { if pi % n != i { continue; } }
                for (si, kind) in scheds.iter().enumerate() {
                    let bseed = seed.wrapping_mul(1_000_003).wrapping_add((pi * 31 + si) as u64);
                    shared.lock().unwrap().header = format!("{} seed={}", name, bseed);
                    { let mut s = shared.lock().unwrap(); s.pname = name.clone(); s.bseed = bseed; }
                    // progress marker: if the process dies inside this batch the caller knows which program it was exploring
                    writeln!(out, "{{\"kind\":\"running\",\"program_name\":{},\"program\":{},\"sched\":{},\"seed\":{}}}", json_str(name), json_str(&prog.to_text()), json_str(kind), bseed).unwrap();
                    out.flush().unwrap();
                    let ebefore = shared.lock().unwrap().executions;
                    run_batch(prog, kind, bseed, if replay.is_some() { 1 } else { iters }, &shared, replay.clone());
                    let s = shared.lock().unwrap();
                    total_exec += s.executions - ebefore;
                    if s.failures.len() >= max_fail { break; }
                }
                if shared.lock().unwrap().failures.len() >= max_fail { break; }
            }
            let s = shared.lock().unwrap();
            let stats: Vec<String> = s.stats.iter().map(|(k, v)| format!("{}:{}", json_str(k), v)).collect();
            writeln!(out, "{{\"kind\":\"summary\",\"programs\":{},\"executions\":{},\"events\":{},\"failures\":{},\"stats\":{{{}}}}}",
                programs.len(), total_exec, s.events, s.failures.len(), stats.join(",")).unwrap();
        }
        _ => { eprintln!("usage: harness explore|replay|gen ..."); std::process::exit(2); }
    }
}
