//! The runtime the harness itself runs on: the same vsched primitives the crate is linked against.

pub use vsched::sync::{Condvar, Mutex};
pub use vsched::thread::{spawn, yield_now, JoinHandle};

pub fn emit(s: &str) { vsched::emit(s) }

#[cfg(feature = "shuttle-backend")]
pub fn block_on<F: std::future::Future>(f: F) -> F::Output { shuttle::future::block_on(f) }

#[cfg(not(feature = "shuttle-backend"))]
pub fn block_on<F: std::future::Future>(f: F) -> F::Output { futures::executor::block_on(f) }
