//! The runtime the harness itself runs on: the same vsched primitives the crate is linked against.

pub use vsched::sync::{Condvar, Mutex};
pub use vsched::thread::{spawn, yield_now};

use futures::task::ArcWake;
use std::future::Future;
use std::pin::Pin;
use std::sync::Arc;
use std::task::{Context, Poll, Waker};

pub fn emit(s: &str) { vsched::emit(s) }

/// The waker handed to a blocked-on future: forwards to the runtime's waker and records the wake.
struct TaskWaker { inner: Waker, agent: usize }

impl ArcWake for TaskWaker {
    fn wake_by_ref(arc_self: &Arc<Self>) {
        vsched::emit(&format!("taskwake A{}", arc_self.agent));
        arc_self.inner.wake_by_ref();
    }
}

struct Observed<F> { inner: Pin<Box<F>>, agent: usize }

impl<F: Future> Future for Observed<F> {
    type Output = F::Output;
    fn poll(mut self: Pin<&mut Self>, cx: &mut Context<'_>) -> Poll<F::Output> {
        let waker = futures::task::waker(Arc::new(TaskWaker { inner: cx.waker().clone(), agent: self.agent }));
        let mut cx2 = Context::from_waker(&waker);
        self.inner.as_mut().poll(&mut cx2)
    }
}

#[cfg(feature = "shuttle-backend")]
pub fn block_on<F: Future>(f: F) -> F::Output {
    shuttle::future::block_on(Observed { inner: Box::pin(f), agent: vsched::agent_id() })
}

#[cfg(not(feature = "shuttle-backend"))]
pub fn block_on<F: Future>(f: F) -> F::Output {
    futures::executor::block_on(Observed { inner: Box::pin(f), agent: vsched::agent_id() })
}

/// Poll a future once; its waker only records that it fired (there is no task to resume).
pub fn poll_once<F: Future + Unpin>(fut: &mut F) -> Poll<F::Output> {
    let waker = futures::task::waker(Arc::new(TaskWaker { inner: futures::task::noop_waker(), agent: vsched::agent_id() }));
    let mut cx = Context::from_waker(&waker);
    Pin::new(fut).poll(&mut cx)
}
