#!/usr/bin/env python3
"""Translator: reads the decision tables and structural facts out of /repo/src as the code states
them NOW and writes them as Lean definitions (Generated.lean) that the model's step function calls.

usage: extract.py <repo-src-dir> <out.lean> [--digest out.json]

Anything it cannot read is an error (exit 2, message naming the function): the check treats that
as a broken correspondence, never as a pass."""

import hashlib
import json
import os
import sys

sys.path.insert(0, os.path.dirname(os.path.abspath(__file__)))
from rustmini import (STATE_PLACE, Evaluator, Flow, P, Unsupported, find_fn, find_matching, parse_block, path_str,
                      strip_attrs_cfg, tokenize)

STATES = ["Idle", "Pending", "Running", "WaitingForWake", "WaitingForUnpark", "WaitingForPoll", "AwokenWhileRunning", "Panicked"]
LEAN_STATE = {"Idle": "idle", "Pending": "pending", "Running": "running", "WaitingForWake": "waitingForWake",
              "WaitingForUnpark": "waitingForUnpark", "WaitingForPoll": "waitingForPoll",
              "AwokenWhileRunning": "awokenWhileRunning", "Panicked": "panicked"}


def qs(name, payload=None):
    return ("v", "QueueState", name, payload)


def walk(node):
    """DFS over the AST (tuples and lists)."""
    if isinstance(node, (tuple, list)):
        yield node
        for c in node:
            yield from walk(c)


def chain(e):
    """method chain → (base path string or None, [method names])"""
    names = []
    while e[0] == "mcall":
        names.append(e[2])
        e = e[1]
    return path_str(e), list(reversed(names))


class Src:
    def __init__(self, srcdir):
        self.dir = srcdir
        self.text = {}
        self.toks = {}
        self.raw = {}

    def load(self, rel):
        if rel not in self.toks:
            raw = open(os.path.join(self.dir, rel)).read()
            self.raw[rel] = raw
            self.text[rel] = strip_attrs_cfg(raw)
            self.toks[rel] = tokenize(self.text[rel])
        return self.toks[rel]

    def fn_body(self, rel, name, impl_of=None):
        toks = self.load(rel)
        try:
            o, c = find_fn(toks, name, impl_of=impl_of)
        except Unsupported as e:
            raise Unsupported("%s: %s" % (rel, e))
        try:
            return parse_block(toks, o), toks[o:c + 1]
        except Unsupported as e:
            raise Unsupported("%s fn %s: %s" % (rel, name, e))


def std_mcall(ev, recv, name, args, e):
    base, names = chain(e)
    last = names[-1]
    if last == "len" and base is not None and base.endswith(".queue"):
        empty = ev.env["__empty"]

        def cmp(op, b, empty=empty):
            if b != 0:
                raise Unsupported("queue length compared with %r" % (b,))
            return {"==": empty, ">": not empty, "!=": not empty, "<=": empty, ">=": True}[op]
        return ("sym", cmp)
    if last == "is_empty" and base is not None and base.endswith(".queue"):
        return ev.env["__empty"]
    if last == "is_running":
        b = path_str(e[1])
        v = ev.env.get(b)
        if v is None:
            raise Unsupported("is_running on unknown %r" % b)
        return v[2] in ev.env["__is_running"]
    if last in ("push_back", "push_front", "pop_front") and base is not None and base.endswith(".queue"):
        ev.effects.append(("queue", last))
        return ("popfront",) if last == "pop_front" else ("unit",)
    if last == "push_back" and base is not None and "schedule" in base:
        ev.effects.append(("schedule_push",))
        return ("unit",)
    if last == "retain" and base is not None and "schedule" in base:
        ev.effects.append(("schedule_retain",))
        return ("unit",)
    if last == "clone" and len(names) == 1:
        return ev.eval(e[1])
    if base == "self" or (base is not None and base.startswith("self.")):
        ev.effects.append(("selfcall", last))
        return ("opaque", "selfcall:" + last)
    ev.effects.append(("mcall", base, tuple(names)))
    return ("opaque", "mcall")


def find_let(ast, name):
    for n in walk(ast):
        if isinstance(n, tuple) and n and n[0] == "let" and n[1] == ("pbind", name):
            return n[2]
    raise Unsupported("let %s not found" % name)


def is_state_place(ps):
    """`<local>.state`: the queue state read through a lock guard, whatever the guard's local is called"""
    return ps is not None and STATE_PLACE.fullmatch(ps) is not None


def find_decision_let(ast, place=None):
    """The first `let NAME = <init>` whose initialiser contains a `match` on `place` (or an assignment to it): the decision
    block of a critical section.  Found by shape, not by the name of the local."""
    best = None
    for n in walk(ast):
        if isinstance(n, tuple) and n and n[0] == "let" and isinstance(n[1], tuple) and n[1][0] == "pbind" and n[2] is not None:
            inner = list(walk(n[2]))
            if any(isinstance(m, tuple) and m and m[0] == "match" and (is_state_place(path_str(m[1])) if place is None else path_str(m[1]) == place) for m in inner):
                if best is None or len(inner) < best[0]:
                    best = (len(inner), n[1][1], n[2])       # the innermost such `let`
    if best is None:
        raise Unsupported("no `let` whose initialiser matches on %s" % (place or "the queue state"))
    return best[1], best[2]


def find_enclosing_let(ast, inner_name):
    """the innermost `let NAME = <init>` whose initialiser contains the `let inner_name = ...`"""
    best = None
    for n in walk(ast):
        if isinstance(n, tuple) and n and n[0] == "let" and isinstance(n[1], tuple) and n[1][0] == "pbind" and n[2] is not None and n[1][1] != inner_name:
            inner = list(walk(n[2]))
            if any(isinstance(m, tuple) and m and m[0] == "let" and m[1] == ("pbind", inner_name) for m in inner):
                if best is None or len(inner) < best[0]:
                    best = (len(inner), n[1][1])
    if best is None:
        raise Unsupported("no `let` around `let %s`" % inner_name)
    return best[1]


def find_state_read_let(ast):
    """`let NAME = <init>` whose initialiser reads a `.state` field and decides nothing (no match inside): the park loop's read"""
    for n in walk(ast):
        if isinstance(n, tuple) and n and n[0] == "let" and isinstance(n[1], tuple) and n[1][0] == "pbind" and n[2] is not None:
            inner = list(walk(n[2]))
            if any(isinstance(m, tuple) and m and m[0] == "field" and m[-1] == "state" for m in inner) and not any(isinstance(m, tuple) and m and m[0] == "match" for m in inner):
                return n[1][1]
    raise Unsupported("no `let` that reads a queue state")


def find_enclosing_block(ast, node):
    """the innermost `{ ... }` block of `ast` that contains `node` (by identity): the critical section the match sits in"""
    best = None
    for b in walk(ast):
        if isinstance(b, tuple) and b and b[0] == "block" and b is not node:
            inner = list(walk(b))
            if any(m is node for m in inner):
                if best is None or len(inner) < best[0]:
                    best = (len(inner), b)
    return best[1] if best else node


def find_match_on(ast, pred):
    for n in walk(ast):
        if isinstance(n, tuple) and n and n[0] == "match":
            s = n[1]
            ps = path_str(s)
            if ps is not None and pred(ps):
                # `if matches!(state, ..) { .. }`: the decision is the whole `if`, not the boolean test inside it
                for m in walk(ast):
                    if isinstance(m, tuple) and m and m[0] == "if" and m[1] is n:
                        return m
                return n
    raise Unsupported("match not found")


def lean_state(v, payload_names):
    assert v[0] == "v", v
    name = v[2]
    if name == "WaitingForPoll":
        p = v[3]
        return "(.waitingForPoll %s)" % payload_names.get(p, "f")
    if name not in LEAN_STATE:
        raise Unsupported("unknown queue state %r" % name)
    return "." + LEAN_STATE[name]


class Extractor:
    def __init__(self, srcdir):
        self.src = Src(srcdir)
        self.out = []
        self.digest = {"tables": {}, "facts": {}}
        self.is_running = None

    # -- helpers ------------------------------------------------------------------------------
    def inputs(self, with_empty=False, with_own=False):
        for s in STATES:
            payloads = [None]
            if s == "WaitingForPoll":
                payloads = [("fid", "self"), ("fid", "other")] if with_own else [("fid", "f")]
            for p in payloads:
                for e in ([True, False] if with_empty else [None]):
                    yield s, p, e

    def env(self, place, s, p, e):
        env = {place: qs(s, p), "__is_running": self.is_running or set()}
        if e is not None:
            env["__empty"] = e
        env["self.id"] = ("fid", "self")
        return env

    def emit_table(self, name, sig, rows, doc, with_empty=False, with_own=False, selfarg=False):
        """rows: dict (state, payload, empty) -> lean rhs string"""
        self.out.append("/-- %s -/" % doc)
        self.out.append("def %s %s" % (name, sig))
        for s in STATES:
            if s == "WaitingForPoll":
                if with_own:
                    for e in ([True, False] if with_empty else [None]):
                        pat = "  | .waitingForPoll f" + ("" if e is None else (", true" if e else ", false"))
                        own = rows[(s, ("fid", "self"), e)]
                        oth = rows[(s, ("fid", "other"), e)]
                        self.out.append("%s => if f = self then %s else %s" % (pat, own, oth))
                else:
                    for e in ([True, False] if with_empty else [None]):
                        pat = "  | .waitingForPoll f" + ("" if e is None else (", true" if e else ", false"))
                        self.out.append("%s => %s" % (pat, rows[(s, ("fid", "f"), e)]))
            else:
                for e in ([True, False] if with_empty else [None]):
                    pat = "  | .%s" % LEAN_STATE[s] + ("" if e is None else (", true" if e else ", false"))
                    self.out.append("%s => %s" % (pat, rows[(s, None, e)]))
        self.out.append("")
        self.digest["tables"][name] = {"%s%s%s" % (k[0], "" if k[1] is None else ":" + k[1][1], "" if k[2] is None else (":empty" if k[2] else ":nonempty")): v for k, v in rows.items()}

    PN = {("fid", "self"): "f", ("fid", "other"): "f", ("fid", "f"): "f"}

    # -- individual tables ------------------------------------------------------------------------
    def queue_state(self):
        toks = self.src.load("scheduler/queue_state.rs")
        # enum variants
        i = 0
        while not (toks[i][1] == "enum" and toks[i + 1][1] == "QueueState"):
            i += 1
        while toks[i][1] != "{":
            i += 1
        j = find_matching(toks, i)
        variants = []
        k = i + 1
        while k < j:
            if toks[k][0] == "ident":
                variants.append(toks[k][1])
                if toks[k + 1][1] == "(":
                    k = find_matching(toks, k + 1)
            k += 1
        if variants != STATES:
            raise Unsupported("QueueState variants changed: %r" % variants)
        body, _ = self.src.fn_body("scheduler/queue_state.rs", "is_running")
        m = find_match_on(body, lambda p: p == "self")
        running = set()
        for s in STATES:
            ev = Evaluator({"self": qs(s, ("fid", "f") if s == "WaitingForPoll" else None)}, mcall=std_mcall)
            r = ev.run(m)
            if r[0] != "value" or not isinstance(r[1], bool):
                raise Unsupported("is_running(%s) = %r" % (s, r))
            if r[1]:
                running.add(s)
        self.is_running = running
        rows = {(s, p, e): ("true" if s in running else "false") for s, p, e in self.inputs()}
        self.emit_table("isRunning", ": QState → Bool", rows, "queue_state.rs `QueueState::is_running`")

    def act_of_effects(self, ev, flow):
        names = [e[1] for e in ev.effects if e[0] == "selfcall"]
        if flow == "panic":
            return "panic"
        for n, a in (("sync_immediate", "immediate"), ("sync_drain", "drain"), ("sync_background", "background"), ("drain_queue", "drain")):
            if n in names:
                return a
        return None

    def sync_like(self, fn, lean_name, acts, doc):
        body, _ = self.src.fn_body("scheduler/desync_scheduler.rs", fn, impl_of="Scheduler")
        ra, decide = find_decision_let(body)
        second = find_match_on(body, lambda p: p == ra)
        rows = {}
        for s, p, e in self.inputs(with_empty=True):
            ev = Evaluator(self.env("core.state", s, p, e), mcall=std_mcall)
            r = ev.run(decide)
            if r[0] != "value":
                raise Unsupported("%s: decision block does not yield a value for %s: %r" % (fn, s, r))
            if any(x[0] == "queue" for x in ev.effects):
                raise Unsupported("%s: decision block touches the job queue" % fn)
            st = ev.env["core.state"]
            ev2 = Evaluator({ra: r[1]}, mcall=std_mcall)
            r2 = ev2.run(second)
            act = self.act_of_effects(ev2, r2[0])
            if act is None:
                v = r2[1]
                if isinstance(v, tuple) and v[0] == "v" and v[2] == "Err":
                    act = "busy"
                elif v is True:
                    act = "refuse"
                else:
                    raise Unsupported("%s: cannot classify action for %s: %r" % (fn, s, r2))
            if act not in acts:
                raise Unsupported("%s: unexpected action %s" % (fn, act))
            rows[(s, p, e)] = "(%s, .%s)" % (lean_state(st, self.PN), act)
        self.emit_table(lean_name, ": QState → Bool → QState × SyncAct", rows, doc, with_empty=True)

    def desync_push(self):
        body, _ = self.src.fn_body("scheduler/desync_scheduler.rs", "schedule_job_desync", impl_of="Scheduler")
        sq, decide = find_decision_let(body)
        second = find_match_on(body, lambda p: p == sq)
        rows = {}
        for s, p, e in self.inputs():
            ev = Evaluator(self.env("core.state", s, p, None), mcall=std_mcall)
            r = ev.run(decide)
            if r[0] != "value":
                raise Unsupported("schedule_job_desync: %r" % (r,))
            qops = [x[1] for x in ev.effects if x[0] == "queue"]
            if qops != ["push_back"]:
                raise Unsupported("schedule_job_desync: queue operations are %r, expected one push_back" % qops)
            st = ev.env["core.state"]
            ev2 = Evaluator({sq: r[1]}, mcall=std_mcall)
            r2 = ev2.run(second)
            if r2[0] == "panic":
                act = "panic"
            elif any(x[0] == "schedule_push" for x in ev2.effects):
                if not any(x == ("selfcall", "schedule_thread") for x in ev2.effects):
                    raise Unsupported("schedule_job_desync: pushes on the schedule without schedule_thread")
                act = "schedule"
            else:
                act = "none"
            rows[(s, p, e)] = "(%s, .%s)" % (lean_state(st, self.PN), act)
        self.emit_table("desyncPush", ": QState → QState × PushAct", rows, "desync_scheduler.rs `schedule_job_desync`: state after pushing the job at the back, and what follows")

    def poll_decide(self):
        body, _ = self.src.fn_body("scheduler/scheduler_future.rs", "poll", impl_of="Future")
        ra, decide = find_decision_let(body)
        wake_match = None
        for n in walk(body):
            if isinstance(n, tuple) and n and n[0] == "match" and n[1] == ("un", "&", ("path", [ra])):
                wake_match = n
        if wake_match is None:
            raise Unsupported("poll: match &run_action not found")
        na = find_enclosing_let(body, ra)
        final = find_match_on(body, lambda p: p == na)
        rows = {}
        for s, p, e in self.inputs(with_own=True):
            ev = Evaluator(self.env("core.state", s, p, None), mcall=std_mcall)
            r = ev.run(decide)
            if r[0] != "value":
                raise Unsupported("poll: %r" % (r,))
            st = ev.env["core.state"]
            ev2 = Evaluator({ra: r[1]}, mcall=std_mcall)
            ev2.run(wake_match)
            store = any(x[0] == "assign" and x[1] == "future_result.waker" for x in ev2.effects)
            ev3 = Evaluator({na: r[1]}, mcall=std_mcall)
            r3 = ev3.run(final)
            if r3[0] == "panic":
                act = "panic"
            elif any(x == ("selfcall", "drain_queue") for x in ev3.effects):
                act = "drain"
            elif r3[0] == "value" and isinstance(r3[1], tuple) and r3[1][0] == "v" and r3[1][2] == "Pending":
                act = "wait"
            else:
                raise Unsupported("poll: cannot classify %r" % (r3,))
            rows[(s, p, e)] = "(%s, .%s, %s)" % (lean_state(st, self.PN), act, "true" if store else "false")
        self.emit_table("pollDecide", "(self : Nat) : QState → QState × PollAct × Bool", rows,
                        "scheduler_future.rs `SchedulerFuture::poll` when the result has not arrived: new state, action, whether the caller's waker is stored", with_own=True)

    def simple_match(self, rel, fn, impl_of, place, lean_name, sig, doc, classify, with_empty=False, pred=None, whole=None, section=False):
        body, _ = self.src.fn_body(rel, fn, impl_of=impl_of)
        node = whole(body) if whole else find_match_on(body, pred or (lambda p: p == place or (is_state_place(place) and is_state_place(p))))
        if section:
            # evaluate the whole critical section the match sits in, so that a state computed by the match and assigned
            # after it (or before it) is still seen
            node = find_enclosing_block(body, node)
        rows = {}
        for s, p, e in self.inputs(with_empty=with_empty):
            ev = Evaluator(self.env(place, s, p, e), mcall=std_mcall)
            r = ev.run(node)
            rows[(s, p, e)] = classify(ev, r, s)
        self.emit_table(lean_name, sig, rows, doc, with_empty=with_empty)

    def claim(self):
        def cl(ev, r, s):
            if r[0] != "value" or not isinstance(r[1], bool):
                raise Unsupported("claim_pending_queue(%s): %r" % (s, r))
            if r[1] and not any(x[0] == "schedule_retain" for x in ev.effects):
                raise Unsupported("claim_pending_queue claims without removing the queue from the schedule")
            return "(%s, %s)" % (lean_state(ev.env["queue_core.state"], self.PN), "true" if r[1] else "false")
        self.simple_match("scheduler/core.rs", "claim_pending_queue", "SchedulerCore", "queue_core.state", "claim", ": QState → QState × Bool",
                          "core.rs `claim_pending_queue`: new state and whether the caller now owns the queue", cl)

    def reschedule(self):
        def cl(ev, r, s):
            if r[0] != "value" or not isinstance(r[1], bool):
                raise Unsupported("reschedule_queue(%s): %r" % (s, r))
            return "(%s, %s)" % (lean_state(ev.env["core.state"], self.PN), "true" if r[1] else "false")
        self.simple_match("scheduler/core.rs", "reschedule_queue", "SchedulerCore", "core.state", "reschedule", ": QState → Bool → QState × Bool",
                          "core.rs `reschedule_queue`: new state and whether the queue is pushed on the schedule (followed by schedule_thread)", cl, with_empty=True)
        body, toks = self.src.fn_body("scheduler/core.rs", "reschedule_queue", impl_of="SchedulerCore")
        names = [t[1] for t in toks]
        self.digest["facts"]["rescheduleNotifies"] = "notify_one" in names or "notify_all" in names
        # after a true result: push on schedule then schedule_thread
        rname, _ = find_decision_let(body)
        tail = None
        for n in walk(body):
            if isinstance(n, tuple) and n and n[0] == "if" and n[1] == ("path", [rname]):
                tail = n
        if tail is None:
            raise Unsupported("reschedule_queue: `if reschedule` not found")
        ev = Evaluator({rname: True}, mcall=std_mcall)
        ev.run(tail)
        if not any(x[0] == "schedule_push" for x in ev.effects) or not any(x == ("selfcall", "schedule_thread") for x in ev.effects):
            raise Unsupported("reschedule_queue: rescheduling does not push on the schedule and call schedule_thread")

    def future_drop(self):
        """`Drop for SchedulerFuture`: what it does to the queue state, and that it only looks when the future was draining"""
        body, toks = self.src.fn_body("scheduler/scheduler_future.rs", "drop", impl_of="SchedulerFuture")
        node = find_match_on(body, is_state_place)
        rows = {}
        for s_, p_, e_ in self.inputs(with_own=True):
            ev = Evaluator(self.env("core.state", s_, p_, None), mcall=std_mcall)
            r = ev.run(node)
            if r[0] != "value" or not isinstance(r[1], bool):
                raise Unsupported("SchedulerFuture::drop(%s): %r" % (s_, r))
            rows[(s_, p_, e_)] = "(%s, %s)" % (lean_state(ev.env["core.state"], self.PN), "true" if r[1] else "false")
        self.emit_table("futureDropDecide", "(self : Nat) : QState → QState × Bool", rows,
                        "scheduler_future.rs `Drop for SchedulerFuture` (taken only when the future was draining the queue): new state and whether the queue is rescheduled", with_own=True)
        names = [t[1] for t in toks]
        # the whole body is `if self.draining { ... }` and a true result is followed by reschedule_queue
        guarded = names[1:5] == ["if", "self", ".", "draining"]
        resched = "reschedule_queue" in names
        self.out.append("/-- `Drop for SchedulerFuture` touches the queue only when the future was draining it, and reschedules the queue it hands back -/")
        self.out.append("def futureDropGuarded : Bool := %s" % ("true" if guarded else "false"))
        self.out.append("def futureDropReschedules : Bool := %s\n" % ("true" if resched else "false"))
        self.digest["facts"]["futureDropGuarded"] = guarded
        self.digest["facts"]["futureDropReschedules"] = resched
        # the flag `Drop` looks at: every `self.draining = <bool>` of drain_queue, in source order, and whether poll() writes it
        def draining_writes(fn):
            _, tk = self.src.fn_body("scheduler/scheduler_future.rs", fn, impl_of="SchedulerFuture")
            nm = [t[1] for t in tk]
            out = []
            for i in range(len(nm) - 4):
                if nm[i:i + 4] == ["self", ".", "draining", "="] and nm[i + 4] in ("true", "false"):
                    out.append(nm[i + 4] == "true")
            return out
        writes = draining_writes("drain_queue")
        poll_writes = draining_writes("poll")
        self.out.append("/-- `SchedulerFuture::drain_queue`: the values written to `self.draining`, in source order (entry; Ready after a Pending job; Pending with the queue waiting for this future; queue empty; result arrived), and whether `poll` itself writes the flag -/")
        self.out.append("def drainingWrites : List Bool := [%s]" % ", ".join("true" if w else "false" for w in writes))
        self.out.append("def pollWritesDraining : Bool := %s\n" % ("true" if poll_writes else "false"))
        self.digest["facts"]["drainingWrites"] = writes
        self.digest["facts"]["pollWritesDraining"] = bool(poll_writes)

    def next_to_run(self):
        def cl(ev, r, s):
            if r[0] == "return":
                v = r[1]
                if not (isinstance(v, tuple) and v[0] == "some"):
                    raise Unsupported("next_to_run returns %r" % (v,))
                return "(%s, true)" % lean_state(ev.env["core.state"], self.PN)
            if r[0] == "value":
                return "(%s, false)" % lean_state(ev.env["core.state"], self.PN)
            raise Unsupported("next_to_run(%s): %r" % (s, r))
        self.simple_match("scheduler/core.rs", "next_to_run", "SchedulerCore", "core.state", "nextToRun", ": QState → QState × Bool",
                          "core.rs `next_to_run`, per schedule entry popped from the front: new state and whether the pool thread takes the queue", cl)

    def dequeue(self):
        def cl(ev, r, s):
            if r[0] != "value":
                raise Unsupported("dequeue(%s): %r" % (s, r))
            if ev.env["core.state"] != qs(s, ("fid", "f") if s == "WaitingForPoll" else None):
                raise Unsupported("dequeue changes the state")
            if r[1] == ("popfront",):
                return "true"
            if r[1] == ("none",):
                return "false"
            raise Unsupported("dequeue(%s) yields %r" % (s, r[1]))
        self.simple_match("scheduler/job_queue.rs", "dequeue", "JobQueue", "core.state", "dequeueAllowed", ": QState → Bool",
                          "job_queue.rs `dequeue`: whether a job is popped from the FRONT in this state", cl)

    def drain_tables(self):
        body, _ = self.src.fn_body("scheduler/job_queue.rs", "drain", impl_of="JobQueue")
        # the Pending arm: statements from `core.state = match ..` on
        pend = None
        for n in walk(body):
            if isinstance(n, tuple) and n and n[0] == "block":
                idx = [i for i, s in enumerate(n[1]) if s[0] == "assign" and is_state_place(path_str(s[1])) and s[2][0] == "match"]
                if idx:
                    pend = ("block", n[1][idx[0]:])
                    pre = n[1][:idx[0]]
                    if not any(x[0] == "expr" and x[1][0] == "mcall" and x[1][2] == "requeue" for x in pre):
                        raise Unsupported("drain: pending job is not requeued before the state update")
        if pend is None:
            raise Unsupported("drain: pending-arm state update not found")
        rows = {}
        for s, p, e in self.inputs():
            ev = Evaluator(self.env("core.state", s, p, None), mcall=std_mcall)
            r = ev.run(pend)
            if r[0] not in ("value", "return"):
                raise Unsupported("drain pending(%s): %r" % (s, r))
            rows[(s, p, e)] = "(%s, %s)" % (lean_state(ev.env["core.state"], self.PN), "true" if r[0] == "return" else "false")
        self.emit_table("drainPending", ": QState → QState × Bool", rows, "job_queue.rs `drain`, after a job returned Pending and was requeued at the front: new state and whether drain returns (queue parked)")
        # exit block
        exit_if = None
        for n in walk(body):
            if isinstance(n, tuple) and n and n[0] == "if" and n[1][0] == "bin" and n[1][1] == "==" and n[1][2][0] == "mcall" and n[1][2][2] == "len":
                exit_if = n
            elif isinstance(n, tuple) and n and n[0] == "if" and n[1][0] == "mcall" and n[1][2] == "is_empty" and (path_str(n[1][1]) or "").endswith(".queue"):
                exit_if = n
        if exit_if is None:
            raise Unsupported("drain: exit test not found")
        # the flag that ends the drain loop: `while !FLAG`, whatever the local is called
        flag = None
        for n in walk(body):
            if isinstance(n, tuple) and n and n[0] == "loop" and n[1] == "while" and isinstance(n[2], tuple) and n[2][:2] == ("un", "!") and n[2][2][0] == "path" and len(n[2][2][1]) == 1:
                flag = n[2][2][1][0]
        if flag is None:
            raise Unsupported("drain: `while !flag` loop not found")
        rows = {}
        for s, p, e in self.inputs(with_empty=True):
            env = self.env("core.state", s, p, e)
            env[flag] = False
            ev = Evaluator(env, mcall=std_mcall)
            r = ev.run(exit_if)
            if r[0] != "value":
                raise Unsupported("drain exit(%s): %r" % (s, r))
            rows[(s, p, e)] = "(%s, %s)" % (lean_state(ev.env["core.state"], self.PN), "true" if ev.env[flag] is True else "false")
        self.emit_table("drainExit", ": QState → Bool → QState × Bool", rows, "job_queue.rs `drain`, when dequeue yields nothing: new state and whether the drain loop ends", with_empty=True)

    def run_one(self):
        body, _ = self.src.fn_body("scheduler/job_queue.rs", "run_one_job_now", impl_of="JobQueue")
        _, sp = find_decision_let(body)
        rows = {}
        for s, p, e in self.inputs():
            ev = Evaluator(self.env("core.state", s, p, None), mcall=std_mcall)
            r = ev.run(sp)
            if r[0] == "panic":
                rows[(s, p, e)] = "(%s, .panic)" % lean_state(qs(s, p), self.PN)
            elif r[0] == "value" and isinstance(r[1], bool):
                rows[(s, p, e)] = "(%s, %s)" % (lean_state(ev.env["core.state"], self.PN), ".park" if r[1] else ".continue")
            else:
                raise Unsupported("run_one_job_now should_park(%s): %r" % (s, r))
        self.emit_table("runOnePending", ": QState → QState × ParkAct", rows, "job_queue.rs `run_one_job_now`, after the job returned Pending: new state and whether the caller parks")
        cs = find_state_read_let(body)
        m = find_match_on(body, lambda p: p == cs)
        rows = {}
        for s, p, e in self.inputs():
            ev = Evaluator(self.env(cs, s, p, None), mcall=std_mcall)
            r = ev.run(m)
            if r[0] == "panic":
                v = ".panic"
            elif r[0] == "break":
                v = ".continue"
            elif r[0] == "value":
                v = ".park"
            else:
                raise Unsupported("run_one_job_now park loop(%s): %r" % (s, r))
            rows[(s, p, e)] = v
        self.emit_table("parkCheck", ": QState → ParkAct", rows, "job_queue.rs `run_one_job_now` park loop: leave the loop, park (again), or panic")

    def wakers(self):
        def clq(ev, r, s):
            if r[0] == "return":
                return "(%s, false)" % lean_state(ev.env["queue_core.state"], self.PN)
            if r[0] == "value":
                return "(%s, true)" % lean_state(ev.env["queue_core.state"], self.PN)
            raise Unsupported("WakeQueue(%s): %r" % (s, r))
        self.simple_match("scheduler/wake_queue.rs", "wake_by_ref", "WakeQueue", "queue_core.state", "wakeQueue", ": QState → QState × Bool",
                          "wake_queue.rs `WakeQueue::wake`: new state and whether reschedule_queue is called", clq, section=True)
        body, toks = self.src.fn_body("scheduler/wake_queue.rs", "wake_by_ref", impl_of="WakeQueue")
        if "reschedule_queue" not in [t[1] for t in toks]:
            raise Unsupported("WakeQueue::wake no longer calls reschedule_queue")

        def clt(ev, r, s):
            if r[0] != "value":
                raise Unsupported("WakeThread(%s): %r" % (s, r))
            return lean_state(ev.env["queue_core.state"], self.PN)
        self.simple_match("scheduler/wake_thread.rs", "wake_by_ref", "WakeThread", "queue_core.state", "wakeThread", ": QState → QState",
                          "wake_thread.rs `WakeThread::wake`: new state (the thread is then unparked)", clt, section=True)
        body, toks = self.src.fn_body("scheduler/wake_thread.rs", "wake_by_ref", impl_of="WakeThread")
        self.digest["facts"]["wakeThreadUnparks"] = "unpark" in [t[1] for t in toks]
        self.out.append("/-- wake_thread.rs: `WakeThread::wake` unparks the thread after the state update -/")
        self.out.append("def wakeThreadUnparks : Bool := %s\n" % ("true" if self.digest["facts"]["wakeThreadUnparks"] else "false"))

    def latch(self):
        LS = {"NotWoken": ".notWoken", "Woken": ".woken", "WillWakeWithWaker": ".willWake"}
        for fn, impl, lean, doc in (("wake_with", "DrainWaker", "latchWakeWith", "`DrainWaker::wake_with`: new latch state and whether the NEW waker is fired at once"),
                                    ("wake_by_ref", "DrainWaker", "latchWake", "`DrainWaker::wake`: new latch state and whether the STORED waker is fired")):
            body, _ = self.src.fn_body("scheduler/scheduler_future.rs", fn, impl_of=impl)
            m = find_match_on(body, lambda p: p == "state")
            self.out.append("/-- scheduler_future.rs %s -/" % doc)
            self.out.append("def %s : Latch → Latch × Bool" % lean)
            rows = {}
            for s in ("NotWoken", "Woken", "WillWakeWithWaker"):
                ev = Evaluator({"state": ("v", "?", s, ("w", "old") if s == "WillWakeWithWaker" else None), "new_waker": ("w", "new")}, mcall=std_mcall)
                r = ev.run(m)
                if r[0] != "value":
                    raise Unsupported("%s(%s): %r" % (fn, s, r))
                ns = ev.env.get("new_state")
                if ns is None or ns[0] != "v" or ns[2] not in LS:
                    raise Unsupported("%s(%s): latch state not assigned: %r" % (fn, s, ns))
                fired = r[1]
                if fired == ("none",):
                    f = "false"
                elif isinstance(fired, tuple) and fired[0] == "some":
                    want = ("w", "new") if fn == "wake_with" else ("w", "old")
                    if fired[1] != want:
                        raise Unsupported("%s(%s) fires the wrong waker %r" % (fn, s, fired))
                    f = "true"
                else:
                    raise Unsupported("%s(%s) yields %r" % (fn, s, fired))
                if ns[2] == "WillWakeWithWaker" and fn == "wake_with" and ns[3] != ("w", "new"):
                    raise Unsupported("wake_with stores the wrong waker")
                self.out.append("  | %s => (%s, %s)" % (LS[s], LS[ns[2]], f))
                rows[s] = "(%s, %s)" % (LS[ns[2]], f)
            self.out.append("")
            self.digest["tables"][lean] = rows

    def facts(self):
        # spawn / despawn comparisons
        body, _ = self.src.fn_body("scheduler/core.rs", "spawn_thread_if_less_than_maximum", impl_of="SchedulerCore")
        cmp_op = None
        for n in walk(body):
            if isinstance(n, tuple) and n and n[0] == "if" and n[1][0] == "bin" and n[1][2][0] == "mcall" and n[1][2][2] == "len" and path_str(n[1][3]) == "max_threads":
                cmp_op = n[1][1]
                ev = Evaluator({}, mcall=std_mcall)
                # the then-branch must push a thread and return true
                thn = n[2]
                if not any(isinstance(x, tuple) and x and x[0] == "mcall" and x[2] == "push" for x in walk(thn)):
                    raise Unsupported("spawn_thread_if_less_than_maximum: no push in the spawning branch")
        if cmp_op is None:
            raise Unsupported("spawn_thread_if_less_than_maximum: comparison not found")
        lean_op = {"<": "<", "<=": "≤", ">": ">", ">=": "≥", "==": "=", "!=": "≠"}[cmp_op]
        self.out.append("/-- core.rs `spawn_thread_if_less_than_maximum`: a thread is created iff this holds (read under the threads lock) -/")
        self.out.append("def spawnAllowed (len max : Nat) : Bool := decide (len %s max)\n" % lean_op)
        self.digest["facts"]["spawnCmp"] = cmp_op
        body, _ = self.src.fn_body("scheduler/desync_scheduler.rs", "despawn_threads_if_overloaded", impl_of="Scheduler")
        dop = None
        for n in walk(body):
            if isinstance(n, tuple) and n and n[0] == "loop" and n[1] == "while" and n[2] is not None and n[2][0] == "bin" and n[2][2][0] == "mcall" and n[2][2][2] == "len":
                dop = n[2][1]
        if dop is None:
            raise Unsupported("despawn_threads_if_overloaded: loop condition not found")
        self.out.append("/-- desync_scheduler.rs `despawn_threads_if_overloaded`: threads are popped while this holds -/")
        self.out.append("def despawnContinues (len max : Nat) : Bool := decide (len %s max)\n" % {"<": "<", "<=": "≤", ">": ">", ">=": "≥"}[dop])
        self.digest["facts"]["despawnCmp"] = dop
        # dormant scan acquisition
        body, toks = self.src.fn_body("scheduler/core.rs", "schedule_dormant", impl_of="SchedulerCore")
        acq = None
        for n in walk(body):
            if isinstance(n, tuple) and n and n[0] == "iflet" and n[2][0] == "mcall" and path_str(n[2][1]) == "busy_rc":
                acq = n[2][2]
        if acq not in ("lock", "try_lock"):
            raise Unsupported("schedule_dormant: busy flag acquisition is %r" % acq)
        self.out.append("/-- core.rs `schedule_dormant`: how the scan takes a thread's busy flag (`true` = blocking `lock`, `false` = `try_lock`, a held flag is skipped) -/")
        self.out.append("def dormantScanBlocks : Bool := %s\n" % ("true" if acq == "lock" else "false"))
        self.digest["facts"]["dormantScanAcquire"] = acq
        names = [t[1] for t in toks]
        self.digest["facts"]["dormantReapsFirst"] = "remove_finished_threads" in names and names.index("remove_finished_threads") < names.index("threads")
        self.out.append("/-- core.rs `schedule_dormant` reaps finished threads before scanning -/")
        self.out.append("def dormantReapsFirst : Bool := %s\n" % ("true" if self.digest["facts"]["dormantReapsFirst"] else "false"))
        # guards
        guarded = {}
        for rel, fn, impl in (("scheduler/desync_scheduler.rs", "sync_immediate", "Scheduler"), ("scheduler/desync_scheduler.rs", "sync_drain", "Scheduler"),
                              ("scheduler/desync_scheduler.rs", "sync_background", "Scheduler"), ("scheduler/job_queue.rs", "drain", "JobQueue"),
                              ("scheduler/scheduler_future.rs", "drain_queue", "SchedulerFuture")):
            _, toks = self.src.fn_body(rel, fn, impl_of=impl)
            names = [t[1] for t in toks]
            ok = False
            for i in range(len(names) - 3):
                if names[i] == "let" and names[i + 1].startswith("_") and names[i + 1] != "_" and names[i + 2] == "=" and names[i + 3] == "ActiveQueue":
                    ok = True
            if fn == "sync_background" and ok:
                # the guard must be inside the branch taken after a successful claim, before the steal loop
                ci = names.index("claim_pending_queue")
                gi = [i for i in range(len(names) - 3) if names[i] == "let" and names[i + 3] == "ActiveQueue"][0]
                ri = [i for i in range(ci, len(names)) if names[i] == "run_one_job_now"][0]
                ok = ci < gi < ri
            guarded[fn] = ok
        self.out.append("/-- which runner functions install the `ActiveQueue` panic guard before running jobs -/")
        self.out.append("def guarded : Runner → Bool")
        for fn, lean in (("sync_immediate", "syncImmediate"), ("sync_drain", "syncDrain"), ("sync_background", "steal"), ("drain", "poolDrain"), ("drain_queue", "drainQueue")):
            self.out.append("  | .%s => %s" % (lean, "true" if guarded[fn] else "false"))
        self.out.append("")
        self.digest["facts"]["guarded"] = guarded
        # what the guard does when it is dropped during a panic
        toks = self.src.load("scheduler/active_queue.rs")
        o, c = find_fn(toks, "drop", impl_of="ActiveQueue")
        body = [t[1] for t in toks[o:c + 1]]
        marks = any(body[k:k + 6] == ["core", ".", "state", "=", "QueueState", "::"] and body[k + 6] == "Panicked" for k in range(len(body) - 6))
        def lock_iflet(k):
            # `if let Ok(guard) = <...>.lock() {`: taking the lock is not a condition on the queue state
            if body[k] != "if" or body[k + 1:k + 3] not in (["let", "Ok"], ["let", "Some"]):
                return False
            j = k
            while j < len(body) and body[j] != "{":
                j += 1
            return "lock" in body[k:j] and "state" not in body[k:j]
        conds = [k for k in range(len(body)) if body[k] in ("if", "match", "while") and not lock_iflet(k)]
        uncond = marks and len(conds) == 1 and body[conds[0] + 1:conds[0] + 4] == ["thread", "::", "panicking"] and not any(t in ("==", "!=", "is_running", "&&", "||") for t in body)
        self.out.append("/-- active_queue.rs `Drop for ActiveQueue`: while panicking the queue is marked Panicked whatever its state (the only condition is `thread::panicking()`) -/")
        self.out.append("def guardMarksPanickedAlways : Bool := %s\n" % ("true" if uncond else "false"))
        self.digest["facts"]["guardMarksPanickedAlways"] = uncond
        # queue operations per function
        ops = {}
        for rel in ("scheduler/desync_scheduler.rs", "scheduler/job_queue.rs", "scheduler/core.rs", "scheduler/scheduler_future.rs", "scheduler/wake_queue.rs", "scheduler/wake_thread.rs"):
            toks = self.src.load(rel)
            names = [t[1] for t in toks]
            cur = None
            for i, n in enumerate(names):
                if n == "fn" and i + 1 < len(names):
                    cur = names[i + 1]
                if n == "queue" and i + 2 < len(names) and names[i + 1] == "." and names[i + 2] in ("push_back", "push_front", "pop_front", "pop_back", "insert", "remove", "clear", "drain", "swap", "retain", "truncate"):
                    ops.setdefault(cur, []).append(names[i + 2])
        expected = {"schedule_job_desync": ["push_back"], "sync_drain": ["push_back"], "sync_background": ["push_back"], "dequeue": ["pop_front"], "requeue": ["push_front"]}
        self.digest["facts"]["queueOps"] = ops
        self.out.append("/-- every operation on a job queue's deque, by function (anything but these five is reported) -/")
        self.out.append("def queueOps : List (String × List String) := [" + ", ".join('("%s", [%s])' % (k, ", ".join('"%s"' % x for x in v)) for k, v in sorted(ops.items())) + "]\n")
        self.out.append("def queueOpsExpected : List (String × List String) := [" + ", ".join('("%s", [%s])' % (k, ", ".join('"%s"' % x for x in v)) for k, v in sorted(expected.items())) + "]\n")
        # try_sync reaches only sync_immediate
        _, toks = self.src.fn_body("scheduler/desync_scheduler.rs", "try_sync", impl_of="Scheduler")
        names = [t[1] for t in toks]
        blocking = [n for n in ("sync_drain", "sync_background", "sync", "wait", "park", "recv", "join", "run_one_job_now") if n in names]
        self.out.append("/-- blocking functions reachable from the body of `try_sync` (must be empty) -/")
        self.out.append("def trySyncBlockingCalls : List String := [%s]\n" % ", ".join('"%s"' % b for b in blocking))
        self.digest["facts"]["trySyncBlockingCalls"] = blocking
        # Desync::drop frees through sync
        toks = self.src.load("desync.rs")
        names = [t[1] for t in toks]
        di = [i for i in range(len(names) - 2) if names[i] == "impl" and "Drop" in names[i:i + 8]]
        if not di:
            raise Unsupported("Desync: Drop impl not found")
        o = di[0]
        while names[o] != "{":
            o += 1
        c = find_matching(toks, o)
        dn = names[o:c]
        uses = [n for n in ("sync", "sync_no_panic", "desync", "try_sync") if n in dn]
        if "from_raw" not in dn:
            raise Unsupported("Desync::drop no longer frees the boxed value")
        # every `Box::from_raw` of the drop must sit inside a closure that is handed to one of those scheduling calls:
        # written in the call's argument list, or bound to a local that is used only as an argument of such calls
        SCHED = ("sync", "sync_no_panic")
        parens, braces, outside, total = [], [], 0, 0      # braces: (is_closure_body, in_sched_call, let_name)
        let_closures = {}
        for k in range(o, c):
            t = names[k]
            if t == "(":
                parens.append(names[k - 1])
            elif t == ")":
                if parens:
                    parens.pop()
            elif t == "{":
                is_closure = names[k - 1] in ("||", "|")
                let_name = None
                if is_closure:
                    j = k - 1
                    while j > o and names[j] in ("||", "|", "move"):
                        j -= 1
                    if names[j] == "=" and names[j - 2] == "let":
                        let_name = names[j - 1]
                braces.append((is_closure, any(x in SCHED for x in parens), let_name))
            elif t == "}":
                if braces:
                    braces.pop()
            elif t == "from_raw":
                total += 1
                cl = [b for b in braces if b[0]]
                if not cl:
                    outside += 1
                elif cl[-1][1]:
                    pass
                elif cl[-1][2] is not None:
                    let_closures.setdefault(cl[-1][2], 0)
                    let_closures[cl[-1][2]] += 1
                else:
                    outside += 1
        for nm, cnt in let_closures.items():
            # every use of the local (other than its definition) must be an argument of sync / sync_no_panic
            ps, ok, n_uses = [], True, 0
            for k in range(o, c):
                t = names[k]
                if t == "(":
                    ps.append(names[k - 1])
                elif t == ")":
                    if ps:
                        ps.pop()
                elif t == nm and names[k - 1] != "let":
                    n_uses += 1
                    if not any(x in SCHED for x in ps):
                        ok = False
            if not ok or n_uses == 0:
                outside += cnt
        self.out.append("/-- `Desync::drop`: how many times the boxed value is released (`Box::from_raw`) outside the closure of a scheduled job -/")
        self.out.append("def dropFreesOutsideJob : Nat := %d\n" % outside)
        self.digest["facts"]["dropFreesOutsideJob"] = outside
        self.digest["facts"]["dropFreesTotal"] = total
        # hand-written hand-backs: a runner that gives the queue up writes `Idle` whatever the state has become meanwhile
        # (the model's siIdle / sdIdle / sbStealIdle / dqIdle steps); one nested in a test of the state is another protocol
        cond_hb = []
        for rel, fn, impl in (("scheduler/desync_scheduler.rs", "sync_immediate", "Scheduler"), ("scheduler/desync_scheduler.rs", "sync_drain", "Scheduler"),
                              ("scheduler/desync_scheduler.rs", "sync_background", "Scheduler"), ("scheduler/scheduler_future.rs", "drain_queue", "SchedulerFuture")):
            _, ftoks = self.src.fn_body(rel, fn, impl_of=impl)
            fn_names = [t[1] for t in ftoks]
            stack, start, n_hb = [], 0, 0
            for k in range(len(fn_names)):
                t = fn_names[k]
                if t == "{":
                    stack.append(fn_names[start:k])
                    start = k + 1
                elif t == "}":
                    if stack:
                        stack.pop()
                    start = k + 1
                elif t == ";":
                    start = k + 1
                elif fn_names[k:k + 5] == ["state", "=", "QueueState", "::", "Idle"]:
                    n_hb += 1
                    if any(h and h[0] in ("if", "match", "while") and "state" in h for h in stack) or (fn_names[start:k].count("if") > 0):
                        cond_hb.append(fn)
            if n_hb == 0:
                raise Unsupported("%s: no hand-back (`state = QueueState::Idle`) found" % fn)
        self.out.append("/-- runner functions in which a hand-back `state = QueueState::Idle` is nested in a test of the queue state (must be empty) -/")
        self.out.append("def stateConditionalHandBacks : List String := [%s]\n" % ", ".join('"%s"' % x for x in sorted(set(cond_hb))))
        self.digest["facts"]["stateConditionalHandBacks"] = sorted(set(cond_hb))
        # inventory of `unsafe` (blocks, fns, impls) per source file: the sites the protocol theorems of C14 are about
        inv = []
        for root, _dirs, files in os.walk(self.src.dir):
            for fn in sorted(files):
                if not fn.endswith(".rs"):
                    continue
                rel = os.path.relpath(os.path.join(root, fn), self.src.dir)
                if rel.startswith("verif") or "/verif" in rel:
                    continue
                n = sum(1 for t in self.src.load(rel) if t[1] == "unsafe")
                if n:
                    inv.append((rel, n))
        inv.sort()
        self.out.append("/-- every source file that contains `unsafe` (block, fn or impl), with the number of occurrences -/")
        self.out.append("def unsafeSites : List (String × Nat) := [%s]\n" % ", ".join('("%s", %d)' % x for x in inv))
        self.digest["facts"]["unsafeSites"] = inv
        self.out.append("/-- scheduling functions used by `Desync::drop` to free the value -/")
        self.out.append("def dropUses : List String := [%s]\n" % ", ".join('"%s"' % u for u in uses))
        self.digest["facts"]["dropUses"] = uses
        # SyncFuture field order
        toks = self.src.load("scheduler/sync_future.rs")
        names = [t[1] for t in toks]
        i = [k for k in range(len(names) - 1) if names[k] == "struct" and names[k + 1] == "SyncFuture"][0]
        while names[i] != "{":
            i += 1
        j = find_matching(toks, i)
        fields = []
        k = i + 1
        depth = 0
        while k < j:
            if names[k] in ("<", "("):
                depth += 1
            elif names[k] in (">", ")"):
                depth -= 1
            elif depth == 0 and toks[k][0] == "ident" and names[k + 1] == ":" and names[k + 2] != ":":
                fields.append(names[k])
            k += 1
        self.out.append("/-- declaration (= drop) order of `SyncFuture`'s fields -/")
        self.out.append("def syncFutureFields : List String := [%s]\n" % ", ".join('"%s"' % f for f in fields))
        self.digest["facts"]["syncFutureFields"] = fields
        # a hand-written Drop impl would run before any field is dropped and could release the queue early
        custom_drop = any(names[k] == "impl" and "Drop" in names[k:k + 12] and "SyncFuture" in names[k:k + 14] for k in range(len(names)))
        self.out.append("/-- does `SyncFuture` have a hand-written `Drop` impl (which would run before the fields are dropped)? -/")
        self.out.append("def syncFutureCustomDrop : Bool := %s\n" % ("true" if custom_drop else "false"))
        self.digest["facts"]["syncFutureCustomDrop"] = custom_drop

    def pipe_facts_unit(self):
        # pipe constants
        toks = self.src.load("pipe.rs")
        names = [t[1] for t in toks]
        i = names.index("PIPE_BACKPRESSURE_COUNT")
        while names[i] != "=":
            i += 1
        depth = int(names[i + 1])
        self.out.append("/-- pipe.rs `PIPE_BACKPRESSURE_COUNT` -/")
        self.out.append("def pipeDefaultDepth : Nat := %d\n" % depth)
        self.digest["facts"]["pipeDefaultDepth"] = depth
        self.pipe_facts(toks)

    # ---- pipe.rs: the critical sections of the stream core and of the poll-function slot ----------------
    def lock_sections(self, toks, lo, hi, guard_expr, fields):
        """Every `<guard_expr>.lock()` between token indices lo..hi with the scope in which the guard lives
        (a `let`-bound guard lives to the end of its block, a temporary to the end of its statement) and the fields of the
        protected struct touched inside that scope, in source order."""
        names = [t[1] for t in toks]
        out = []
        i = lo
        n = len(guard_expr)
        while i < hi - n - 2:
            if names[i:i + n] == guard_expr and names[i + n:i + n + 3] == [".", "lock", "("]:
                # is the guard bound by a let?
                j = i - 1
                bound = False
                if names[j] == "=":
                    k = j - 1
                    while k > lo and names[k] not in (";", "{", "}"):
                        if names[k] == "let":
                            bound = True
                            break
                        k -= 1
                # `let x = { stream_core.lock().unwrap().field... }` style temporaries: bound only if the statement ends right after unwrap()
                if bound:
                    q = i + n + 3
                    depth_p = 1
                    while depth_p:
                        if names[q] == "(":
                            depth_p += 1
                        elif names[q] == ")":
                            depth_p -= 1
                        q += 1
                    # allow .unwrap()
                    if names[q:q + 4] == [".", "unwrap", "(", ")"]:
                        q += 4
                    if names[q] != ";":
                        bound = False
                # scope end
                depth = 0
                q = i
                end = hi
                while q < hi:
                    if names[q] == "{":
                        depth += 1
                    elif names[q] == "}":
                        if depth == 0:
                            end = q
                            break
                        depth -= 1
                    elif names[q] == ";" and depth == 0 and not bound:
                        end = q
                        break
                    q += 1
                touched = []
                for q in range(i, end):
                    if names[q] in fields and names[q - 1] == "." and (not touched or touched[-1] != names[q]):
                        touched.append(names[q])
                out.append(touched)
                i = i + n + 3
            else:
                i += 1
        return out

    def pipe_facts(self, toks):
        names = [t[1] for t in toks]
        # fields of PipeStreamCore
        i = names.index("PipeStreamCore")
        while not (names[i - 1] == "struct" and names[i] == "PipeStreamCore"):
            i = names.index("PipeStreamCore", i + 1)
        o = names.index("{", i)
        c = find_matching(toks, o)
        fields = [names[k] for k in range(o + 1, c) if names[k + 1] == ":" and names[k - 1] in ("{", ",")]
        if sorted(fields) != sorted(["max_pipe_depth", "pending", "closed", "notify", "notify_stream_closed", "backpressure_release_notify"]):
            raise Unsupported("PipeStreamCore fields are %r" % fields)
        # the target reference of PipeContext
        i = names.index("PipeContext")
        while not (names[i - 1] == "struct" and names[i] == "PipeContext"):
            i = names.index("PipeContext", i + 1)
        o = names.index("{", i)
        c = find_matching(toks, o)
        k = names.index("target", o, c)
        weak = names[k + 2] == "Weak"
        self.out.append("/-- pipe.rs `PipeContext.target` is a `Weak` reference -/")
        self.out.append("def pipeTargetWeak : Bool := %s\n" % ("true" if weak else "false"))
        self.digest["facts"]["pipeTargetWeak"] = weak
        # critical sections of the producing poll function of pipe()
        o, c = find_fn(toks, "pipe")
        # the local through which the poll function reaches the stream core: the one bound from `.upgrade()` (the core is held
        # weakly), or the one an `if let Some(..)` re-binds it to -- whatever these locals are called
        guards = []
        for k in range(o, c - 3):
            if names[k:k + 3] == [".", "upgrade", "("] and names[k - 2] == "=" and names[k - 4] in ("let", "mut"):
                guards.append(names[k - 3])
        for g in list(guards):
            for k in range(o, c - 6):
                if names[k:k + 3] == ["Some", "(", names[k + 2]] and names[k + 3] == ")" and names[k + 4] == "=" and names[k + 5] == g and names[k + 2] not in guards:
                    guards.append(names[k + 2])
        found = [(g, self.lock_sections(toks, o, c, [g], fields)) for g in guards]
        found = [(g, x) for g, x in found if x]
        if len(found) != 1:
            raise Unsupported("pipe: cannot tell through which local the poll function locks the stream core (candidates %r)" % [g for g, _ in found])
        secs = found[0][1]
        self.out.append("/-- pipe.rs `pipe`: the critical sections the producing poll function takes on the stream core, in source order, with the core fields each one touches -/")
        self.out.append("def pipeProducerSections : List (List String) := [%s]\n" % ", ".join("[" + ", ".join('"%s"' % f for f in sec) + "]" for sec in secs))
        self.digest["facts"]["pipeProducerSections"] = secs
        # PipeStream::drop and PipeStream::poll_next
        o, c = find_fn(toks, "drop", impl_of="PipeStream")
        secs = self.lock_sections(toks, o, c, ["self", ".", "core"], fields)
        body = names[o:c]
        chute = "REFERENCE_CHUTE" in body and "on_drop" in body
        self.out.append("/-- pipe.rs `Drop for PipeStream`: core fields touched under the one lock it takes; does it hand `on_drop` to the disposal queue -/")
        self.out.append("def pipeDropSections : List (List String) := [%s]" % ", ".join("[" + ", ".join('"%s"' % f for f in sec) + "]" for sec in secs))
        self.out.append("def pipeDropQueuesOnDrop : Bool := %s\n" % ("true" if chute else "false"))
        self.digest["facts"]["pipeDropSections"] = secs
        o, c = find_fn(toks, "poll_next", impl_of="PipeStream")
        secs = self.lock_sections(toks, o, c, ["self", ".", "core"], fields)
        self.out.append("/-- pipe.rs `PipeStream::poll_next`: core fields touched under the one lock it takes -/")
        self.out.append("def pipeConsSections : List (List String) := [%s]\n" % ", ".join("[" + ", ".join('"%s"' % f for f in sec) + "]" for sec in secs))
        self.digest["facts"]["pipeConsSections"] = secs
        # the consumer's three branches
        ast, _ = self.src.fn_body("pipe.rs", "poll_next", impl_of="PipeStream")
        rows = []
        def mentions(node, what):
            return any(isinstance(x, tuple) and x and ((x[0] == "mcall" and x[2] == what) or (x[0] in ("path", "field") and path_str(x).endswith(what))) for x in walk(node))
        def result(node):
            txt = repr(node)
            if "'Pending'" in txt:
                return "pending"
            return "item" if "'Some'" in txt and "'Ready'" in txt else "fin"
        found = None
        for nnode in walk(ast):
            if isinstance(nnode, tuple) and nnode and nnode[0] == "iflet" and mentions(nnode[2], "pop_front"):
                found = nnode
        if found is None:
            raise Unsupported("poll_next: `if let Some(item) = core.pending.pop_front()` not found")
        item_b, rest = found[3], found[4]
        if not (isinstance(rest, tuple) and rest[0] == "if" and path_str(rest[1]).endswith("closed")):
            # the else branch may be wrapped in a block
            cand = [x for x in walk(rest) if isinstance(x, tuple) and x and x[0] == "if" and path_str(x[1]).endswith("closed")]
            if not cand:
                raise Unsupported("poll_next: `else if core.closed` not found")
            rest = cand[0]
        closed_b, pend_b = rest[2], rest[3]
        for nm, br in (("item", item_b), ("closed", closed_b), ("empty", pend_b)):
            rows.append((nm, result(br), mentions(br, "take") and "backpressure_release_notify" in repr(br), "'notify'" in repr(br) and "'assign'" in repr(br)))
        self.out.append("/-- pipe.rs `PipeStream::poll_next`, per branch (an item is buffered / none and closed / none and open): what is returned, is the back-pressure waker taken, is the consumer's waker stored -/")
        self.out.append("def pipeConsBranches : List (String × String × Bool × Bool) := [%s]\n" % ", ".join('("%s", "%s", %s, %s)' % (a, b, "true" if c1 else "false", "true" if d1 else "false") for a, b, c1, d1 in rows))
        self.digest["facts"]["pipeConsBranches"] = rows
        # PipeWaker is one-shot: wake_by_ref takes the context out of its slot
        o, c = find_fn(toks, "wake_by_ref", impl_of="PipeWaker")
        body = names[o:c]
        oneshot = any(body[k:k + 3] == [".", "take", "("] for k in range(len(body) - 3)) and "context" in body
        self.out.append("/-- pipe.rs `PipeWaker::wake_by_ref` takes the context out of the waker (one-shot) -/")
        self.out.append("def pipeWakerOneShot : Bool := %s\n" % ("true" if oneshot else "false"))
        self.digest["facts"]["pipeWakerOneShot"] = oneshot

    def unit(self, name, f, *args):
        """One extraction unit.  If the source no longer has the shape the unit understands, the unit's previous text (from the
        output file as it stands) is kept, the failure is recorded under digest["errors"][name], and the other units go on:
        the check then reports the properties that rest on this unit, not all of them."""
        start = len(self.out)
        saved = (dict(self.digest["tables"]), dict(self.digest["facts"]))
        self.out.append("-- «unit:%s»" % name)
        try:
            f(*args)
        except (Unsupported, IndexError, KeyError, ValueError, AssertionError, TypeError) as e:
            old = self.old_units.get(name)
            if old is None:
                raise
            del self.out[start + 1:]
            self.out.extend(old)
            self.digest["tables"], self.digest["facts"] = saved
            msg = str(e) if isinstance(e, Unsupported) else "unexpected source shape (%s: %s)" % (type(e).__name__, e)
            self.digest.setdefault("errors", {})[name] = msg
        self.out.append("-- «end:%s»" % name)

    def run(self, old_text=None):
        self.old_units = {}
        if old_text:
            cur, buf = None, []
            for line in old_text.split("\n"):
                if line.startswith("-- «unit:") and line.endswith("»"):
                    cur, buf = line[len("-- «unit:"):-1], []
                elif line.startswith("-- «end:") and cur is not None:
                    self.old_units[cur] = buf
                    cur = None
                elif cur is not None:
                    buf.append(line)
        self.out.append("/- GENERATED by /verif/tools/extract.py from /repo/src — do not edit; rewritten on every check run. -/")
        self.out.append("import DesyncModel.Types\n")
        self.out.append("namespace Desync\nnamespace Gen\n")
        self.unit("queue_state", self.queue_state)
        self.unit("desync_push", self.desync_push)
        self.unit("sync", self.sync_like, "sync", "syncDecide", {"immediate", "drain", "background", "panic"}, "desync_scheduler.rs `sync`: new state and strategy, by state and whether the queue is empty")
        self.unit("sync_no_panic", self.sync_like, "sync_no_panic", "syncNoPanicDecide", {"immediate", "drain", "background", "refuse"}, "desync_scheduler.rs `sync_no_panic` (used by Drop while panicking)")
        self.unit("try_sync", self.sync_like, "try_sync", "trySyncDecide", {"immediate", "busy", "panic"}, "desync_scheduler.rs `try_sync`")
        self.unit("poll_decide", self.poll_decide)
        self.unit("future_drop", self.future_drop)
        self.unit("claim", self.claim)
        self.unit("reschedule", self.reschedule)
        self.unit("next_to_run", self.next_to_run)
        self.unit("dequeue", self.dequeue)
        self.unit("drain_tables", self.drain_tables)
        self.unit("run_one", self.run_one)
        self.unit("wakers", self.wakers)
        self.unit("latch", self.latch)
        self.unit("facts", self.facts)
        self.unit("pipe_facts", self.pipe_facts_unit)
        digests = {}
        for rel, raw in sorted(self.src.raw.items()):
            digests[rel] = hashlib.sha256(raw.encode()).hexdigest()[:16]
        self.digest["sources"] = digests
        self.out.append("end Gen\nend Desync")
        return "\n".join(self.out) + "\n"


def main():
    if len(sys.argv) < 3:
        print(__doc__)
        sys.exit(2)
    srcdir, out = sys.argv[1], sys.argv[2]
    ex = Extractor(srcdir)
    old = open(out).read() if os.path.exists(out) else None
    try:
        text = ex.run(old)
    except Unsupported as e:
        print("EXTRACT-ERROR: %s" % e, file=sys.stderr)
        sys.exit(2)
    except (IndexError, KeyError, ValueError, AssertionError, TypeError) as e:
        print("EXTRACT-ERROR: unexpected source shape (%s: %s)" % (type(e).__name__, e), file=sys.stderr)
        sys.exit(2)
    if old != text:
        open(out, "w").write(text)
    if "--digest" in sys.argv:
        json.dump(ex.digest, open(sys.argv[sys.argv.index("--digest") + 1], "w"), indent=1, sort_keys=True)
    errs = ex.digest.get("errors", {})
    for u, m in sorted(errs.items()):
        # the unit's previous text is kept; the check reports the properties that rest on it
        print("EXTRACT-ERROR: unit %s: %s" % (u, m), file=sys.stderr)
    print("extracted %d tables, %d facts%s" % (len(ex.digest["tables"]), len(ex.digest["facts"]), "" if old != text else " (unchanged)"))
    if errs:
        sys.exit(3)


if __name__ == "__main__":
    main()
