#!/bin/bash
# usage: mutant_matrix.sh [-j N] [seeded-dir ...]      (default: every directory under /verif/seeded, 4 at a time)
# Runs `./check all` against each seeded change WITHOUT touching /repo or /verif/lean: every change gets its own
# scratch worktree of /repo and its own copy of /verif under /var/tmp/mv/<name>, both removed afterwards.
# Writes <seeded-dir>/detected.json: which properties the checks flagged, through which obligation, with what replay.
J=4
if [ "$1" = "-j" ]; then J=$2; shift 2; fi
dirs=("$@")
[ ${#dirs[@]} -eq 0 ] && dirs=(/verif/seeded/*/)
one() {
  d=$(realpath "$1"); name=$(basename "$d")
  W=/var/tmp/mv/$name
  git -C /repo worktree remove --force $W/repo 2>/dev/null; rm -rf $W; mkdir -p $W
  git -C /repo worktree add -q --detach $W/repo HEAD || { echo "$name: worktree failed"; return; }
  git -C $W/repo apply "$d/patch.diff" || { echo "$name: patch does not apply"; git -C /repo worktree remove --force $W/repo; rm -rf $W; return; }
  rsync -a --exclude .git --exclude replays --exclude evidence --exclude seeded --exclude '.cache/run-*' --exclude '.cache/trace*' --exclude '.cache/*.txt' /verif/ $W/verif/
  sed -i "s#/verif#$W/verif#g; s#/var/tmp/dv#$W/dv#g" $W/verif/check $W/verif/tools/*.sh $W/verif/harness/Cargo.toml $W/verif/harness/.cargo/config.toml $W/verif/probe15/Cargo.toml $W/verif/probe15/.cargo/config.toml
  mkdir -p $W/verif/evidence $W/verif/replays
  t0=$(date +%s)
  (cd $W/verif && VERIF_REPO=$W/repo ./check all > $W/out.txt 2>$W/err.txt)
  t1=$(date +%s)
  python3 - "$d" "$W" $((t1-t0)) <<'PY'
import json, os, re, sys
d, W, secs = sys.argv[1], sys.argv[2], int(sys.argv[3])
flag = {}
for line in open(os.path.join(W, "out.txt")):
    m = re.match(r"VIOLATION property=(\S+) replay=(\S+)(.*)", line)
    if not m:
        continue
    prop, path, rest = m.groups()
    info = {"no_failing_input_found": "no-failing-input-found" in rest}
    try:
        r = json.load(open(path))
        info["kind"] = r.get("kind")
        if r.get("kind") == "oracle":
            info["oracle_verdict"] = (r.get("oracle_verdict") or "")[:300]
            info["program"] = (r.get("program") or "")[:300]
        info["broken"] = [{"kind": b.get("kind"), "detail": json.dumps(b.get("detail"))[:400]} for b in r.get("broken", [])][:4]
    except Exception as e:
        info["error"] = str(e)
    flag[prop] = info
meta = {}
try:
    meta = json.load(open(os.path.join(d, "meta.json")))
except Exception:
    pass
target = (meta.get("property") or os.path.basename(d.rstrip("/")).split("-")[0])[:3]
out = {"target_property": target, "detected": bool(flag), "target_flagged": target in flag, "flagged": flag, "check_wall_s": secs,
       "ok_lines": sum(1 for l in open(os.path.join(W, "out.txt")) if l.startswith("OK "))}
json.dump(out, open(os.path.join(d, "detected.json"), "w"), indent=1)
kinds = {p: (("oracle" if v.get("kind") == "oracle" else "/".join(b["kind"] for b in v.get("broken", [])))) for p, v in flag.items()}
print("%s: target %s %s; flagged %s (%ds)" % (os.path.basename(d.rstrip("/")), target, "FLAGGED" if target in flag else "missed", kinds, secs))
PY
  git -C /repo worktree remove --force $W/repo; rm -rf $W
}
export -f one
printf '%s\n' "${dirs[@]}" | xargs -P $J -I{} bash -c 'one {}'
