import sys
# usage: showtrace.py <event-number> <event-text-prefix> [from]  -- prints the trace of the exec whose Nth event starts with the text
n=int(sys.argv[1]); text=sys.argv[2]; start=int(sys.argv[3]) if len(sys.argv)>3 else 0
flt=sys.argv[4].split(',') if len(sys.argv)>4 else []
lines=open('/verif/.cache/last-trace.txt').read().split('\n')
execs=[];cur=None
for l in lines:
    if l.startswith('#exec'): cur=[]; execs.append(cur)
    elif l.startswith('#end'): cur=None
    elif cur is not None: cur.append(l)
for ex in execs:
    if len(ex)>=n and ex[n-1].startswith(text):
        for i,l in enumerate(ex[:n+2]):
            if i>=start and not any(k in l for k in flt): print(i+1,l)
        break
