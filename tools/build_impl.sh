#!/bin/bash
# Copies /repo's working tree to a scratch directory outside /repo and /verif, adds the vsched
# dependency to the COPY's manifest, and builds the harness against it with --cfg desync_verif.
# The harness binary is cached in /verif/.cache keyed by a hash of the sources it was built from.
set -e
REPO=${VERIF_REPO:-/repo}
SCRATCH=/var/tmp/dv
CACHE=/verif/.cache
mkdir -p "$SCRATCH" "$CACHE/bin"
HASH=$( (cd "$REPO" && find src Cargo.toml -type f | sort | xargs sha256sum; cd /verif && find vsched/src vsched/Cargo.toml harness/src harness/Cargo.toml probe15/src probe15/Cargo.toml -type f | sort | xargs sha256sum) | sha256sum | cut -c1-16)
BIN="$CACHE/bin/harness-$HASH"
PROBE="$CACHE/bin/probe15-$HASH"
if [ -x "$BIN" ] && [ -x "$PROBE" ]; then echo "$BIN"; exit 0; fi
rm -rf "$SCRATCH/repo"
rsync -a --exclude target --exclude .git "$REPO/" "$SCRATCH/repo/"
printf '\n[dependencies.vsched]\npath = "/verif/vsched"\ndefault-features = false\n' >> "$SCRATCH/repo/Cargo.toml"
cd /verif/harness
[ -f Cargo.lock ] || cp "$REPO/Cargo.lock" Cargo.lock
if ! CARGO_NET_OFFLINE=true cargo build --offline >"$CACHE/build.log" 2>&1; then
  rm -rf "$SCRATCH/repo"
  echo "BUILD-FAILED (see $CACHE/build.log)" >&2
  grep -E "^error" -A6 "$CACHE/build.log" | head -40 >&2
  exit 3
fi
# the C15 probe: same crate copy, vsched std back end (real threads; panics cannot be run under shuttle)
cd /verif/probe15
[ -f Cargo.lock ] || cp "$REPO/Cargo.lock" Cargo.lock
if ! CARGO_NET_OFFLINE=true cargo build --offline >>"$CACHE/build.log" 2>&1; then
  rm -rf "$SCRATCH/repo"
  echo "BUILD-FAILED (probe15, see $CACHE/build.log)" >&2
  grep -E "^error" -A6 "$CACHE/build.log" | head -40 >&2
  exit 3
fi
# keep only the newest few binaries
ls -t "$CACHE"/bin/harness-* 2>/dev/null | tail -n +6 | xargs -r rm -f
ls -t "$CACHE"/bin/probe15-* 2>/dev/null | tail -n +6 | xargs -r rm -f
cp "$CACHE/target/debug/harness" "$BIN"
cp "$CACHE/target15/debug/probe15" "$PROBE"
# remove the scratch copy and the crate's own build output (third-party build output is kept)
(cd /verif/harness && CARGO_NET_OFFLINE=true cargo clean --offline -p desync >/dev/null 2>&1 || true)
(cd /verif/probe15 && CARGO_NET_OFFLINE=true cargo clean --offline -p desync >/dev/null 2>&1 || true)
rm -rf "$SCRATCH/repo"
echo "$BIN"
