#!/bin/bash
# copy a finished mutation agent's deliverables into /verif/seeded/<name>/ (unverified until meta says so)
id=$1; name=${2:-$1-a}
mkdir -p /verif/seeded/$name && cp /tmp/mut/$id/deliver/* /verif/seeded/$name/ && ls /verif/seeded/$name
