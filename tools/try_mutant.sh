#!/bin/bash
# usage: try_mutant.sh <seeded-dir> [props...]  -- applies the patch to /repo, runs the checks, undoes it
d=$(realpath $1); shift
cd /repo && git diff --quiet || { echo "/repo not clean"; exit 2; }
git -C /repo apply "$(realpath $d)/patch.diff" || { echo "patch does not apply"; exit 2; }
cd /verif
props=${@:-all}
for p in $props; do ./check $p 2>/dev/null | grep -v "^OK" | cut -c1-200; done
git -C /repo checkout -- .
python3 /verif/tools/extract.py /repo/src /verif/lean/DesyncModel/Generated.lean >/dev/null
