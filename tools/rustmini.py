"""A small parser + symbolic evaluator for the Rust subset in which desync's state decision tables
are written.  Used by extract.py.  Anything outside the subset raises Unsupported, which the
check treats as a broken correspondence (never as a pass)."""

import re


class Unsupported(Exception):
    pass


TOKEN_RE = re.compile(r"""
    (?P<ws>\s+) |
    (?P<lcomment>//[^\n]*) |
    (?P<bcomment>/\*.*?\*/) |
    (?P<str>"(?:\\.|[^"\\])*") |
    (?P<char>'(?:\\.|[^'\\])') |
    (?P<lifetime>'[A-Za-z_][A-Za-z0-9_]*) |
    (?P<num>\d[\d_]*(?:\.\d+)?(?:[A-Za-z0-9_]*)) |
    (?P<ident>r\#[A-Za-z_][A-Za-z0-9_]*|[A-Za-z_][A-Za-z0-9_]*) |
    (?P<op>::|=>|->|==|!=|<=|>=|&&|\|\||\+=|-=|\.\.=|\.\.|[{}()\[\];,.:=<>!&|+\-*/%#?@^~$])
""", re.X | re.S)


def tokenize(src):
    toks = []
    pos = 0
    while pos < len(src):
        m = TOKEN_RE.match(src, pos)
        if not m:
            raise Unsupported("cannot tokenize at %r" % src[pos:pos + 30])
        pos = m.end()
        k = m.lastgroup
        if k in ("ws", "lcomment", "bcomment"):
            continue
        toks.append((k, m.group(k), m.start()))
    return toks


def strip_attrs_cfg(src):
    """Remove `#[cfg(desync_verif)]`-guarded items/statements (the verification hooks) so that the
    translator reads the code as it is with the guard off, and resolve cfg(not(desync_verif))."""
    out = []
    lines = src.split("\n")
    i = 0
    while i < len(lines):
        l = lines[i]
        s = l.strip()
        if s == "#[cfg(desync_verif)]":
            # skip the attribute and the statement/item it guards (to the matching end)
            i += 1
            depth = 0
            started = False
            while i < len(lines):
                t = lines[i]
                for ch in t:
                    if ch in "{(":
                        depth += 1
                        started = True
                    elif ch in "})":
                        depth -= 1
                i += 1
                if depth <= 0 and (t.rstrip().endswith(";") or t.rstrip().endswith("}") or (started and depth <= 0)):
                    break
            continue
        if s == "#[cfg(not(desync_verif))]":
            i += 1
            continue
        out.append(l)
        i += 1
    return "\n".join(out)


def find_matching(toks, i):
    """toks[i] is an opening bracket; return index of its partner."""
    opener = toks[i][1]
    closer = {"{": "}", "(": ")", "[": "]"}[opener]
    depth = 0
    j = i
    while j < len(toks):
        t = toks[j][1]
        if toks[j][0] == "op":
            if t == opener:
                depth += 1
            elif t == closer:
                depth -= 1
                if depth == 0:
                    return j
        j += 1
    raise Unsupported("unbalanced bracket")


def find_fn(toks, name, start=0, impl_of=None):
    """Return (body_open_index, body_close_index) of `fn name`. If impl_of is given the function
    must be inside `impl ... impl_of ... {`."""
    i = start
    lo, hi = 0, len(toks)
    if impl_of is not None:
        found = False
        j = 0
        while j < len(toks):
            if toks[j][1] == "impl":
                k = j
                while toks[k][1] != "{":
                    k += 1
                header = [t[1] for t in toks[j:k]]
                if impl_of in header:
                    # for trait impls (`impl X for Y`) the type is after `for`
                    if isinstance(impl_of, str):
                        end = find_matching(toks, k)
                        # check function exists within
                        for q in range(k, end):
                            if toks[q][1] == "fn" and toks[q + 1][1] == name:
                                lo, hi, found = k, end, True
                                break
                        if found:
                            break
                j = k
            j += 1
        if not found:
            raise Unsupported("impl %s with fn %s not found" % (impl_of, name))
    i = max(i, lo)
    while i < hi - 1:
        if toks[i][1] == "fn" and toks[i + 1][1] == name:
            j = i
            # skip to the body's opening brace (generics / where clauses contain no braces)
            while toks[j][1] != "{":
                if toks[j][1] == ";":
                    raise Unsupported("fn %s has no body" % name)
                j += 1
            return j, find_matching(toks, j)
        i += 1
    raise Unsupported("fn %s not found" % name)


# ---------------------------------------------------------------------------------------------
# Parser for blocks / statements / expressions (subset)


class P:
    def __init__(self, toks):
        self.t = toks
        self.i = 0

    def peek(self, k=0):
        return self.t[self.i + k][1] if self.i + k < len(self.t) else None

    def kind(self, k=0):
        return self.t[self.i + k][0] if self.i + k < len(self.t) else None

    def next(self):
        v = self.t[self.i][1]
        self.i += 1
        return v

    def expect(self, v):
        if self.peek() != v:
            raise Unsupported("expected %r got %r near token %d (%s)" % (v, self.peek(), self.i, " ".join(x[1] for x in self.t[max(0, self.i - 6):self.i + 6])))
        self.i += 1

    # block := '{' stmt* [expr] '}'
    def block(self):
        self.expect("{")
        stmts = []
        while self.peek() != "}":
            stmts.append(self.stmt())
        self.expect("}")
        return ("block", stmts)

    def stmt(self):
        p = self.peek()
        if p == ";":
            self.next()
            return ("nop",)
        if p == "let":
            self.next()
            pat = self.pattern()
            if self.peek() == ":":
                self.next()
                self.skip_type()
            init = None
            if self.peek() == "=":
                self.next()
                init = self.expr()
            self.expect(";")
            return ("let", pat, init)
        if p == "return":
            self.next()
            e = None
            if self.peek() not in (";", "}"):
                e = self.expr()
            if self.peek() == ";":
                self.next()
            return ("return", e)
        if p == "break":
            self.next()
            if self.peek() == ";":
                self.next()
            return ("break",)
        if p == "use":
            while self.next() != ";":
                pass
            return ("nop",)
        if p == "enum":
            # local enum definition
            while self.peek() != "{":
                self.next()
            j = find_matching(self.t, self.i)
            self.i = j + 1
            return ("nop",)
        if p in ("debug_assert", "assert") and self.peek(1) == "!":
            self.next()
            self.next()
            j = find_matching(self.t, self.i)
            self.i = j + 1
            if self.peek() == ";":
                self.next()
            return ("nop",)
        e = self.expr()
        if e[0] == "assignexpr":
            if self.peek() == ";":
                self.next()
            return ("assign", e[1], e[2])
        if self.peek() == ";":
            self.next()
            return ("expr", e, True)
        return ("expr", e, False)

    def skip_type(self):
        depth = 0
        while True:
            p = self.peek()
            if p in ("<", "(", "["):
                depth += 1
            elif p in (">", ")", "]"):
                depth -= 1
            elif p in ("=", ";") and depth == 0:
                return
            self.next()

    def pattern(self):
        # patterns: `_`, ident, `mut ident`, `ref ident`, Path, Path(pats), `a | b`, (a, b), &pat
        alts = [self.pattern1()]
        while self.peek() == "|":
            self.next()
            alts.append(self.pattern1())
        return alts[0] if len(alts) == 1 else ("por", alts)

    def pattern1(self):
        p = self.peek()
        if p == "&":
            self.next()
            return self.pattern1()
        if p in ("mut", "ref"):
            self.next()
            return self.pattern1()
        if p == "(":
            self.next()
            items = []
            while self.peek() != ")":
                items.append(self.pattern())
                if self.peek() == ",":
                    self.next()
            self.expect(")")
            return ("ptuple", items)
        if p == "_":
            self.next()
            return ("pwild",)
        if self.kind() in ("num",) or p in ("true", "false"):
            return ("plit", self.next())
        if self.kind() == "ident":
            path = [self.next()]
            while self.peek() == "::":
                self.next()
                path.append(self.next())
            if self.peek() == "(":
                self.next()
                args = []
                while self.peek() != ")":
                    args.append(self.pattern())
                    if self.peek() == ",":
                        self.next()
                self.expect(")")
                return ("pctor", path, args)
            if len(path) == 1 and (path[0][0].islower() or path[0][0] == "_"):
                return ("pbind", path[0])
            return ("pctor", path, [])
        raise Unsupported("pattern at %r" % p)

    def expr(self, no_struct=False):
        e = self.binop(0, no_struct)
        if self.peek() == "=":
            self.next()
            rhs = self.expr(no_struct)
            return ("assignexpr", e, rhs)
        return e

    PREC = [["||"], ["&&"], ["==", "!=", "<", ">", "<=", ">="], ["+", "-"], ["*", "/", "%"]]

    def binop(self, level, no_struct):
        if level == len(self.PREC):
            return self.unary(no_struct)
        lhs = self.binop(level + 1, no_struct)
        while self.peek() in self.PREC[level]:
            op = self.next()
            rhs = self.binop(level + 1, no_struct)
            lhs = ("bin", op, lhs, rhs)
        return lhs

    def unary(self, no_struct):
        p = self.peek()
        if p in ("!", "*", "&", "-"):
            self.next()
            if p == "&" and self.peek() == "mut":
                self.next()
            e = self.unary(no_struct)
            return ("un", p, e)
        return self.postfix(no_struct)

    def postfix(self, no_struct):
        e = self.primary(no_struct)
        while True:
            p = self.peek()
            if p == ".":
                self.next()
                name = self.next()
                if self.peek() == "::":  # turbofish
                    self.next()
                    self.expect("<")
                    d = 1
                    while d:
                        q = self.next()
                        if q == "<":
                            d += 1
                        elif q == ">":
                            d -= 1
                if self.peek() == "(":
                    args = self.args()
                    e = ("mcall", e, name, args)
                else:
                    e = ("field", e, name)
            elif p == "(":
                args = self.args()
                e = ("call", e, args)
            elif p == "?":
                self.next()
            elif p == "[":
                self.next()
                idx = self.expr()
                self.expect("]")
                e = ("index", e, idx)
            else:
                return e

    def args(self):
        self.expect("(")
        a = []
        while self.peek() != ")":
            a.append(self.expr())
            if self.peek() == ",":
                self.next()
        self.expect(")")
        return a

    def primary(self, no_struct):
        p = self.peek()
        k = self.kind()
        if p == "(":
            self.next()
            if self.peek() == ")":
                self.next()
                return ("unit",)
            e = self.expr()
            if self.peek() == ",":
                items = [e]
                while self.peek() == ",":
                    self.next()
                    if self.peek() == ")":
                        break
                    items.append(self.expr())
                self.expect(")")
                return ("tuple", items)
            self.expect(")")
            return e
        if p == "{":
            return self.block()
        if p == "if":
            return self.if_expr()
        if p == "match":
            self.next()
            scrut = self.expr(no_struct=True)
            self.expect("{")
            arms = []
            while self.peek() != "}":
                pat = self.pattern()
                guard = None
                if self.peek() == "if":
                    self.next()
                    guard = self.expr(no_struct=True)
                self.expect("=>")
                body = self.expr()
                if self.peek() == ",":
                    self.next()
                arms.append((pat, guard, body))
            self.expect("}")
            return ("match", scrut, arms)
        if p in ("while", "loop", "for"):
            # loops are not evaluated by the table evaluator; keep the body opaque
            self.next()
            cond = None
            if p == "while":
                if self.peek() == "let":
                    self.next()
                    self.pattern()
                    self.expect("=")
                cond = self.expr(no_struct=True)
            elif p == "for":
                self.pattern()
                self.expect("in")
                self.expr(no_struct=True)
            body = self.block()
            return ("loop", p, cond if p == "while" else None, body)
        if p == "move" or p == "|" or p == "||":
            # closure: skip to its body and keep it opaque
            if p == "move":
                self.next()
            if self.peek() == "||":
                self.next()
            else:
                self.expect("|")
                while self.peek() != "|":
                    self.next()
                self.expect("|")
            body = self.expr()
            return ("closure", body)
        if p == "unsafe":
            self.next()
            return self.block()
        if p == "return":
            self.next()
            e = None
            if self.peek() not in (";", "}", ","):
                e = self.expr()
            return ("returnexpr", e)
        if p == "break":
            self.next()
            return ("breakexpr",)
        if k == "num":
            return ("num", int(re.sub(r"[^0-9].*$", "", self.next().replace("_", "")) or 0))
        if k == "str":
            return ("str", self.next())
        if p in ("true", "false"):
            self.next()
            return ("bool", p == "true")
        if k == "ident":
            path = [self.next()]
            while self.peek() == "::":
                self.next()
                if self.peek() == "<":
                    d = 0
                    while True:
                        q = self.next()
                        if q == "<":
                            d += 1
                        elif q == ">":
                            d -= 1
                            if d == 0:
                                break
                    continue
                path.append(self.next())
            if self.peek() == "!":
                # macro
                self.next()
                opener = self.peek()
                j = find_matching(self.t, self.i)
                inner = self.t[self.i + 1:j]
                self.i = j + 1
                if path[-1] == "matches":
                    # matches!(expr, pattern [if guard])  ==  match expr { pattern [if guard] => true, _ => false }
                    sub = P(list(inner))
                    scrut = sub.expr(no_struct=True)
                    sub.expect(",")
                    pat = sub.pattern()
                    guard = None
                    if sub.peek() == "if":
                        sub.next()
                        guard = sub.expr(no_struct=True)
                    if sub.peek() == ",":
                        sub.next()
                    if sub.peek() is not None:
                        raise Unsupported("matches!: trailing tokens")
                    return ("match", scrut, [(pat, guard, ("bool", True)), (("pwild",), None, ("bool", False))])
                return ("macro", path[-1], inner)
            if self.peek() == "{" and not no_struct and path[-1][0].isupper():
                # struct literal
                j = find_matching(self.t, self.i)
                inner = self.t[self.i + 1:j]
                self.i = j + 1
                return ("struct", path, inner)
            return ("path", path)
        raise Unsupported("expression at %r (token %d: %s)" % (p, self.i, " ".join(x[1] for x in self.t[max(0, self.i - 8):self.i + 8])))

    def if_expr(self):
        self.expect("if")
        if self.peek() == "let":
            self.next()
            pat = self.pattern()
            self.expect("=")
            scrut = self.expr(no_struct=True)
            then = self.block()
            els = None
            if self.peek() == "else":
                self.next()
                els = self.if_expr() if self.peek() == "if" else self.block()
            return ("iflet", pat, scrut, then, els)
        cond = self.expr(no_struct=True)
        then = self.block()
        els = None
        if self.peek() == "else":
            self.next()
            els = self.if_expr() if self.peek() == "if" else self.block()
        return ("if", cond, then, els)


def parse_block(toks, open_idx):
    close = find_matching(toks, open_idx)
    p = P(toks[open_idx:close + 1])
    return p.block()


# ---------------------------------------------------------------------------------------------
# Symbolic evaluation of a parsed block


class Flow(Exception):
    def __init__(self, kind, value=None):
        self.kind = kind
        self.value = value


def path_str(e):
    """field/path chain → dotted string, or None."""
    if e[0] == "path":
        return "::".join(e[1])
    if e[0] == "field":
        b = path_str(e[1])
        return None if b is None else b + "." + e[2]
    if e[0] == "un" and e[1] in ("*", "&"):
        return path_str(e[2])
    return None


import re as _re
STATE_PLACE = _re.compile(r"(?!self\.)[a-z_][a-z0-9_]*\.state")


class Evaluator:
    """env: dict of place-string -> value.  Values: ('v', Enum, Variant, payload) for enum variants,
    True/False, ints, ('unit',), ('opaque', text).  `hooks` lets the caller interpret method calls
    and unknown paths."""

    def __init__(self, env, mcall=None, call=None, on_effect=None):
        self.env = dict(env)
        # the queue state is read through a lock guard held in a local (`core.state`, `queue_core.state`, ...): whatever the
        # local is called, `<local>.state` denotes the place the caller put in `env`
        sp = [k for k in self.env if isinstance(k, str) and STATE_PLACE.fullmatch(k)]
        self.state_place = sp[0] if len(sp) == 1 else None
        self.mcall = mcall
        self.call = call
        self.effects = []
        self.on_effect = on_effect

    def run(self, block):
        try:
            v = self.eval(block)
            return ("value", v)
        except Flow as f:
            return (f.kind, f.value)

    def eval_block(self, stmts):
        last = ("unit",)
        for s in stmts:
            k = s[0]
            if k == "nop":
                last = ("unit",)
            elif k == "let":
                v = self.eval(s[2]) if s[2] is not None else ("unit",)
                self.bind(s[1], v)
                last = ("unit",)
            elif k == "return":
                raise Flow("return", self.eval(s[1]) if s[1] is not None else ("unit",))
            elif k == "break":
                raise Flow("break")
            elif k == "assign":
                place = self.canon(path_str(s[1]))
                if place is None:
                    raise Unsupported("assignment target %r" % (s[1],))
                self.env[place] = self.eval(s[2])
                self.effects.append(("assign", place, self.env[place]))
                last = ("unit",)
            elif k == "expr":
                v = self.eval(s[1])
                last = ("unit",) if s[2] else v
        return last

    def bind(self, pat, v):
        if pat[0] == "pbind":
            self.env[pat[1]] = v
        elif pat[0] == "pwild":
            pass
        elif pat[0] == "ptuple" and isinstance(v, tuple) and v and v[0] == "tuple":
            for p, x in zip(pat[1], v[1]):
                self.bind(p, x)
        else:
            pass

    def matches(self, pat, v):
        """Returns bindings dict or None."""
        k = pat[0]
        if k == "pwild":
            return {}
        if k == "pbind":
            return {pat[1]: v}
        if k == "por":
            for a in pat[1]:
                b = self.matches(a, v)
                if b is not None:
                    return b
            return None
        if k == "pctor":
            name = pat[1][-1]
            if isinstance(v, tuple) and v and v[0] == "v":
                if v[2] != name:
                    return None
                b = {}
                payload = v[3]
                if pat[2]:
                    if payload is None:
                        return None
                    sub = self.matches(pat[2][0], payload)
                    if sub is None:
                        return None
                    b.update(sub)
                return b
            if name == "Some" and isinstance(v, tuple) and v and v[0] == "some":
                return self.matches(pat[2][0], v[1]) if pat[2] else {}
            if name == "None" and v == ("none",):
                return {}
            if name in ("Some", "None"):
                return None
            raise Unsupported("match of %r against pattern %r" % (v, pat))
        if k == "plit":
            lit = pat[1]
            if lit in ("true", "false"):
                return {} if v == (lit == "true") else None
            return {} if v == int(lit) else None
        raise Unsupported("pattern kind %r" % (k,))

    def eval(self, e):
        k = e[0]
        if k == "block":
            return self.eval_block(e[1])
        if k == "unit":
            return ("unit",)
        if k == "bool":
            return e[1]
        if k == "num":
            return e[1]
        if k == "str":
            return ("opaque", e[1])
        if k == "path":
            s = "::".join(e[1])
            if s in self.env:
                return self.env[s]
            if len(e[1]) >= 2 and e[1][-2][0].isupper():
                return ("v", e[1][-2], e[1][-1], None)
            if len(e[1]) == 1 and e[1][0] in ("None",):
                return ("none",)
            if len(e[1]) == 1 and e[1][0][0].isupper():
                # bare variant imported with `use Enum::*`
                return ("v", "?", e[1][0], None)
            return ("opaque", s)
        if k == "field":
            s = self.canon(path_str(e))
            if s is not None and s in self.env:
                return self.env[s]
            return ("opaque", s or "field")
        if k == "un":
            if e[1] == "!":
                v = self.eval(e[2])
                if isinstance(v, bool):
                    return not v
                raise Unsupported("negation of non-bool %r" % (v,))
            return self.eval(e[2])
        if k == "bin":
            op = e[1]
            if op in ("&&", "||"):
                a = self.eval(e[2])
                if not isinstance(a, bool):
                    raise Unsupported("non-bool operand %r" % (a,))
                if op == "&&":
                    return a and self.as_bool(self.eval(e[3]))
                return a or self.as_bool(self.eval(e[3]))
            a, b = self.eval(e[2]), self.eval(e[3])
            if op == "==":
                return self.eq(a, b)
            if op == "!=":
                return not self.eq(a, b)
            if isinstance(a, int) and isinstance(b, int) and not isinstance(a, bool):
                return {"<": a < b, ">": a > b, "<=": a <= b, ">=": a >= b, "+": a + b, "-": a - b}[op]
            if isinstance(a, tuple) and a[0] == "sym":
                return a[1](op, b)
            raise Unsupported("binary %s on %r, %r" % (op, a, b))
        if k == "call":
            f = path_str(e[1])
            args = [self.eval(a) for a in e[2]]
            if f is not None and f.split("::")[-1] == "Some":
                return ("some", args[0])
            if f is not None and f.split("::")[-1][0].isupper() and len(f.split("::")) >= 2:
                parts = f.split("::")
                return ("v", parts[-2], parts[-1], args[0] if args else None)
            if f is not None and f.split("::")[-1][0].isupper():
                return ("v", "?", f, args[0] if args else None)
            if self.call:
                r = self.call(self, f, args, e)
                if r is not None:
                    return r
            self.effects.append(("call", f, args))
            return ("opaque", "call:%s" % f)
        if k == "mcall":
            recv = path_str(e[1])
            if self.mcall:
                r = self.mcall(self, recv, e[2], e[3], e)
                if r is not None:
                    return r
            self.effects.append(("mcall", recv, e[2]))
            return ("opaque", "mcall:%s.%s" % (recv, e[2]))
        if k == "macro":
            if e[1] == "panic":
                raise Flow("panic")
            if e[1] in ("debug_assert", "assert", "println", "format", "vec"):
                return ("unit",)
            raise Unsupported("macro %s!" % e[1])
        if k == "if":
            c = self.as_bool(self.eval(e[1]))
            if c:
                return self.eval(e[2])
            if e[3] is not None:
                return self.eval(e[3])
            return ("unit",)
        if k == "iflet":
            v = self.eval(e[2])
            b = self.matches(e[1], v)
            if b is not None:
                self.env.update(b)
                return self.eval(e[3])
            if e[4] is not None:
                return self.eval(e[4])
            return ("unit",)
        if k == "match":
            v = self.eval(e[1])
            for pat, guard, body in e[2]:
                b = self.matches(pat, v)
                if b is None:
                    continue
                saved = dict(self.env)
                self.env.update(b)
                if guard is not None and not self.as_bool(self.eval(guard)):
                    self.env = saved
                    continue
                return self.eval(body)
            raise Unsupported("no arm matches %r" % (v,))
        if k == "assignexpr":
            place = self.canon(path_str(e[1]))
            if place is None:
                raise Unsupported("assignment target %r" % (e[1],))
            self.env[place] = self.eval(e[2])
            self.effects.append(("assign", place, self.env[place]))
            return ("unit",)
        if k == "returnexpr":
            raise Flow("return", self.eval(e[1]) if e[1] is not None else ("unit",))
        if k == "breakexpr":
            raise Flow("break")
        if k == "tuple":
            return ("tuple", [self.eval(x) for x in e[1]])
        if k in ("closure", "loop", "struct", "index"):
            return ("opaque", k)
        raise Unsupported("expression kind %r" % (k,))

    def canon(self, place):
        if place is not None and self.state_place is not None and STATE_PLACE.fullmatch(place):
            return self.state_place
        return place

    def as_bool(self, v):
        if isinstance(v, bool):
            return v
        raise Unsupported("condition is not a boolean: %r" % (v,))

    def eq(self, a, b):
        if isinstance(a, tuple) and a and a[0] == "v" and isinstance(b, tuple) and b and b[0] == "v":
            return a[2] == b[2] and a[3] == b[3]
        if isinstance(a, tuple) and a and a[0] == "sym":
            return a[1]("==", b)
        if isinstance(b, tuple) and b and b[0] == "sym":
            return b[1]("==", a)
        if isinstance(a, (bool, int)) and isinstance(b, (bool, int)):
            return a == b
        if isinstance(a, tuple) and isinstance(b, tuple) and a and b and a[0] == "fid" and b[0] == "fid":
            return a == b
        raise Unsupported("equality of %r and %r" % (a, b))
