#!/usr/bin/env python3
"""Rebuilds the seeded-change table of DESIGN.md (between the MATRIX markers) from seeded/*/detected.json and verified.json."""
import json, os, re, sys
V = "/verif"
rows = []
for name in sorted(os.listdir(os.path.join(V, "seeded"))):
    d = os.path.join(V, "seeded", name)
    try:
        det = json.load(open(os.path.join(d, "detected.json")))
    except Exception:
        continue
    ver = {}
    try:
        ver = json.load(open(os.path.join(d, "verified.json")))
    except Exception:
        pass
    meta = {}
    try:
        meta = json.load(open(os.path.join(d, "meta.json")))
    except Exception:
        pass
    tgt = det["target_property"]
    f = det["flagged"].get(tgt, {})
    how = []
    kinds = [b["kind"] for b in f.get("broken", [])]
    if "translator" in kinds: how.append("translator refuses the source shape")
    if "proof" in kinds: how.append("tables/facts obligation")
    if "conformance" in kinds: how.append("conformance")
    if f.get("kind") == "oracle": how.append("oracle (concrete replay)")
    detail = ""
    for b in f.get("broken", []):
        if b["kind"] == "proof":
            m = re.search(r'"theorem": "([^"]+)"', b["detail"])
            if m: detail = "`%s`" % m.group(1); break
    if f.get("kind") == "oracle" and not detail:
        detail = (f.get("oracle_verdict") or "")[:90]
    others = sorted(p for p in det["flagged"] if p != tgt)
    what = (meta.get("summary") or meta.get("what") or meta.get("change") or "")
    what = re.sub(r"\s+", " ", what)[:150]
    ok = ver.get("demo_fails_with_change") and ver.get("demo_passes_without_change") and not ver.get("suite_new_failures_with_change")
    rows.append("| `%s` | %s | %s | %s | %s | %s |" % (name, tgt, "yes" if ok else "see verified.json", " + ".join(how) or "-", re.sub(r"\s+", " ", detail).replace("|", "/"), len(others)))
table = "| seeded change | target | confirmed | caught by (target property) | detail | other properties flagged |\n|---|---|---|---|---|---|\n" + "\n".join(rows)
p = os.path.join(V, "DESIGN.md")
s = open(p).read()
if "MATRIX_TABLE_PLACEHOLDER" in s:
    s = s.replace("MATRIX_TABLE_PLACEHOLDER", "<!-- MATRIX-BEGIN -->\n" + table + "\n<!-- MATRIX-END -->")
else:
    s = re.sub(r"<!-- MATRIX-BEGIN -->.*?<!-- MATRIX-END -->", lambda m: "<!-- MATRIX-BEGIN -->\n" + table + "\n<!-- MATRIX-END -->", s, flags=re.S)
open(p, "w").write(s)
print(table)
