#!/bin/bash
# usage: conform.sh <programs-file|gen:N> <scheds> <iters> <seed> [extra harness args]  -> runs harness with traces, then the Lean driver
set -e
H=$(/verif/tools/build_impl.sh)
T=/verif/.cache/trace-$$.txt
$H explore --programs "$1" --scheds "$2" --iters "$3" --seed "$4" --trace-out $T "${@:5}" >/verif/.cache/explore-$$.json 2>/dev/null || true
/verif/lean/.lake/build/bin/driver conform $T ${VERBOSE:+-v} | cut -c1-${WIDTH:-900}
tail -1 /verif/.cache/explore-$$.json | cut -c1-300
[ -n "$KEEP" ] && cp $T /verif/.cache/last-trace.txt
rm -f $T /verif/.cache/explore-$$.json
