import sys,json,collections
c=collections.Counter(); ex={}
for l in sys.stdin:
    try: d=json.loads(l)
    except Exception: print(l.rstrip()); continue
    if d['kind']=='failure':
        k=(d.get('program_name') if len(sys.argv)>1 else '', tuple(d['props']), d['what'][:110]); c[k]+=1; ex.setdefault(k,d)
    else: print(d)
for k,v in c.most_common(): print(v,k); print('    ',ex[k]['program']); print('    sched', ex[k]['sched'], 'seed', ex[k]['seed'])
