#!/bin/bash
# usage: harmless_check.sh
# Applies each rewrite under /verif/harmless (edits of /repo that keep every property: renamed locals and lock guards,
# reordered / merged match arms, a state computed before it is assigned) to a scratch worktree of /repo and checks that the
# translator produces exactly the tables it produces for the unchanged tree.  (`./check all` on the rewritten tree was run by
# hand for both: 17 x OK; DESIGN.md 12.11.)
set -u
V=/verif
rc=0
for d in $V/harmless/*.diff; do
  name=$(basename $d .diff)
  W=/var/tmp/hw/$name
  git -C /repo worktree remove --force $W 2>/dev/null; rm -rf $W; mkdir -p /var/tmp/hw
  git -C /repo worktree add -q --detach $W HEAD || { echo "$name: worktree failed"; rc=1; continue; }
  if ! git -C $W apply $d; then echo "$name: patch does not apply"; rc=1; git -C /repo worktree remove --force $W; continue; fi
  cp $V/lean/DesyncModel/Generated.lean /var/tmp/hw/$name.base.lean
  python3 $V/tools/extract.py /repo/src /var/tmp/hw/$name.base.lean > /dev/null 2>&1
  cp /var/tmp/hw/$name.base.lean /var/tmp/hw/$name.new.lean
  out=$(python3 $V/tools/extract.py $W/src /var/tmp/hw/$name.new.lean 2>&1); erc=$?
  # the inventory of `unsafe` may shrink under a harmless rewrite (the obligation is "within the inventory"): compare it separately
  inv_ok=$(python3 - /var/tmp/hw/$name.new.lean <<'PY'
import re, sys
allowed = {"desync.rs": 10, "scheduler/desync_scheduler.rs": 2, "scheduler/unsafe_job.rs": 4}
line = [l for l in open(sys.argv[1]) if l.startswith("def unsafeSites")][0]
print("yes" if all(int(n) <= allowed.get(f, 0) for f, n in re.findall(r'\("([^"]+)", (\d+)\)', line)) else "no")
PY
)
  grep -v "^def unsafeSites" /var/tmp/hw/$name.base.lean > /var/tmp/hw/$name.base.cmp; grep -v "^def unsafeSites" /var/tmp/hw/$name.new.lean > /var/tmp/hw/$name.new.cmp
  if [ $erc -ne 0 ] || [ "$inv_ok" != "yes" ] || ! cmp -s /var/tmp/hw/$name.base.cmp /var/tmp/hw/$name.new.cmp; then
    echo "HARMLESS-REWRITE-CHANGES-TABLES $name (extract rc=$erc): $out"; rc=1
  else
    echo "ok $name: tables identical"
  fi
  git -C /repo worktree remove --force $W
  rm -f /var/tmp/hw/$name.base.lean /var/tmp/hw/$name.new.lean /var/tmp/hw/$name.base.cmp /var/tmp/hw/$name.new.cmp
done
rmdir /var/tmp/hw 2>/dev/null
exit $rc
