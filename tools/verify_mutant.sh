#!/bin/bash
# usage: verify_mutant.sh <seeded-dir>
# Confirms in a scratch worktree: the patch applies and compiles, the baseline suite still passes (same set as before),
# the demonstration fails with the change and passes without it.  Writes <dir>/verified.json.
d=$(realpath $1); name=$(basename $d)
W=/tmp/mutv/$name
rm -rf $W; mkdir -p /tmp/mutv
git -C /repo worktree add -q --detach $W HEAD || exit 2
cd $W
export CARGO_TARGET_DIR=$W/target CARGO_NET_OFFLINE=true
demo=$(ls $d/*.rs | head -1); tname=$(basename $demo .rs)
cp $demo tests/
run_demo() { timeout 600 cargo test --offline --test $tname 2>&1 | tail -40 > $1; grep -q "test result: ok" $1; }
suite() { timeout 1200 cargo nextest run --workspace --no-fail-fast --test-threads 8 --offline -E "not binary($tname)" 2>&1 | grep -E "^\s+(PASS|FAIL|TIMEOUT)" | sed 's/\[[^]]*\]//' | awk '{print $1, $NF}' | sort > $1; }
run_demo $W/demo_without.txt; without=$?
suite $W/suite_without.txt
git apply $d/patch.diff || { echo '{"applies": false}' > $d/verified.json; cd /; git -C /repo worktree remove --force $W; exit 1; }
cargo build --offline 2>&1 | tail -3 > $W/build.txt; grep -q "Finished" $W/build.txt; builds=$?
run_demo $W/demo_with.txt; with=$?
suite $W/suite_with.txt
newfail=$(comm -13 <(grep FAIL $W/suite_without.txt) <(grep -E "FAIL|TIMEOUT" $W/suite_with.txt) | grep -v async_only_runs_once | tr '\n' ';')
python3 - <<PY
import json
json.dump({"applies": True, "builds": $builds == 0, "demo_passes_without_change": $without == 0, "demo_fails_with_change": $with != 0,
  "suite_new_failures_with_change": "$newfail", "suite_passed_without": sum(1 for l in open("$W/suite_without.txt") if l.startswith("PASS")),
  "suite_passed_with": sum(1 for l in open("$W/suite_with.txt") if l.startswith("PASS")),
  "demo_output_with_change": open("$W/demo_with.txt").read()[-600:]}, open("$d/verified.json","w"), indent=1)
PY
cd /; git -C /repo worktree remove --force $W
cat $d/verified.json | head -8
