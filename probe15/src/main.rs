//! probe15: the dynamic half of C15 ("a panicking operation is contained to its own object").
//!
//! Panics cannot be run under the shuttle back end (shuttle's primitives stop working while a thread is unwinding), so
//! these scenarios run on REAL threads: desync is built with `--cfg desync_verif` against the vsched *std* back end (std
//! primitives plus the bookkeeping that tells this program when a pool thread has exited).  Every scenario is
//!
//!   phase 1  concurrent threads work on a victim object P and on healthy objects; exactly one closure panics, in one of
//!            the runner contexts the property names (pool thread / sync caller / polling task / a waiting sync caller
//!            that steals the job);
//!   barrier  every phase-1 thread has returned (panics are caught at the call) and every pool thread that died has exited:
//!            the panic has finished unwinding;
//!   phase 2  every kind of scheduling call on P must panic (not run, not be dropped silently, not block); the healthy
//!            objects must run what is scheduled on them; the pool must be able to run as many blocking jobs at once as
//!            its maximum says (it replaced the thread it lost).
//!
//! Output: one JSON line per failure, one summary line.  Real threads cannot be replayed step by step: the replay of a
//! failure is the scenario (template, parameters, seed), re-run `--iters` times.

use desync::Desync;
use desync::scheduler::scheduler;
use futures::prelude::*;
use std::panic::{catch_unwind, AssertUnwindSafe};
use std::sync::atomic::{AtomicBool, AtomicUsize, Ordering};
use std::sync::mpsc;
use std::sync::{Arc, Condvar, Mutex};
use std::time::{Duration, Instant};

const PROBE_TIMEOUT: Duration = Duration::from_secs(20);
/// phase 1 may legitimately block (a sync call made while the panic is still unwinding): such executions are inconclusive, not failures
const PHASE1_TIMEOUT: Duration = Duration::from_secs(3);

#[derive(Clone, Debug)]
struct Scenario { template: &'static str, pool: usize, before: usize, after: usize, healthy: usize, jitter: u64, seed: u64 }

impl Scenario {
    fn text(&self) -> String {
        format!("c15 template={} pool={} before={} after={} healthy={} jitter={} seed={}", self.template, self.pool, self.before, self.after, self.healthy, self.jitter, self.seed)
    }
}

struct Rng(u64);
impl Rng {
    fn next(&mut self) -> u64 { self.0 ^= self.0 << 13; self.0 ^= self.0 >> 7; self.0 ^= self.0 << 17; self.0 }
    fn below(&mut self, n: u64) -> u64 { self.next() % n }
}

fn spin(n: u64) { for _ in 0..n { std::hint::spin_loop(); } if n % 3 == 0 { std::thread::yield_now(); } }

struct Fail { what: String }

/// dropped after the Desync next to it in the tuple: set when the unwinding got past the Desync's destructor
struct DropFlag(Arc<AtomicBool>);
impl Drop for DropFlag { fn drop(&mut self) { self.0.store(true, Ordering::SeqCst); } }

/// Runs `f` on its own thread; Ok(Ok(v)) returned, Ok(Err(())) panicked, Err(()) still blocked after the time-out.
fn guarded<R: Send + 'static>(f: impl FnOnce() -> R + Send + 'static) -> Result<Result<R, ()>, ()> {
    let (tx, rx) = mpsc::channel();
    std::thread::spawn(move || { let r = catch_unwind(AssertUnwindSafe(f)); let _ = tx.send(r.map_err(|_| ())); });
    rx.recv_timeout(PROBE_TIMEOUT).map_err(|_| ())
}

fn run_scenario(sc: &Scenario, fails: &mut Vec<Fail>, stats: &mut std::collections::BTreeMap<String, usize>) {
    vsched::begin_execution();
    let sched = scheduler();
    sched.verif_set_max_threads(sc.pool);
    let victim = std::mem::ManuallyDrop::new(Arc::new(Desync::new(0u64)));
    // on every early exit the victim is leaked rather than dropped (dropping a panicked Desync from a healthy thread panics, by design)
    let healthy: Vec<Arc<Desync<u64>>> = (0..sc.healthy.max(1)).map(|_| Arc::new(Desync::new(0u64))).collect();
    let ran_after_panic = Arc::new(AtomicUsize::new(0));   // closures on the victim that started after the panic began
    let panic_started = Arc::new(AtomicBool::new(false));
    let panicked_on_pool = Arc::new(AtomicUsize::new(0));
    let mut rng = Rng(sc.seed | 1);

    let boom = {
        let (ps, pp) = (Arc::clone(&panic_started), Arc::clone(&panicked_on_pool));
        move || {
            if vsched::thread::current_is_named() { pp.fetch_add(1, Ordering::SeqCst); }
            ps.store(true, Ordering::SeqCst);
            panic!("seeded panic (C15 probe)");
        }
    };
    let plain = |v: &Arc<Desync<u64>>, ps: &Arc<AtomicBool>, ra: &Arc<AtomicUsize>| {
        let (ps, ra) = (Arc::clone(ps), Arc::clone(ra));
        v.desync(move |n| { if ps.load(Ordering::SeqCst) { ra.fetch_add(1, Ordering::SeqCst); } *n += 1; });
    };

    // ---------------------------------------------------------------- phase 1
    let mut handles: Vec<std::thread::JoinHandle<()>> = vec![];
    let outcome: Arc<Mutex<Vec<(String, bool)>>> = Arc::new(Mutex::new(vec![]));   // (call, panicked)
    {
        // background load on the healthy objects, concurrent with everything else
        let hs = healthy.clone();
        let j = sc.jitter;
        handles.push(std::thread::spawn(move || {
            for (i, h) in hs.iter().enumerate() {
                h.desync(|n| *n += 1);
                spin(j * (i as u64 + 1));
                let _ = h.sync(|n| *n);
                let _ = h.try_sync(|n| *n);
            }
        }));
    }
    let v = Arc::clone(&victim);
    let (ps, ra, oc) = (Arc::clone(&panic_started), Arc::clone(&ran_after_panic), Arc::clone(&outcome));
    let (before, after, jitter) = (sc.before, sc.after, sc.jitter);
    match sc.template {
        // the panicking closure is an asynchronous job: it runs on a pool thread (or, with no pool, on whoever drains the queue)
        "pool" => {
            handles.push(std::thread::spawn(move || {
                for _ in 0..before { plain(&v, &ps, &ra); }
                v.desync(move |_| boom());
                for _ in 0..after { spin(jitter); let r = catch_unwind(AssertUnwindSafe(|| plain(&v, &ps, &ra))); oc.lock().unwrap().push(("desync-concurrent".into(), r.is_err())); }
            }));
        }
        // the panicking closure is the closure of a sync call on an idle object: it runs on the calling thread
        "sync" => {
            handles.push(std::thread::spawn(move || {
                for _ in 0..before { plain(&v, &ps, &ra); }
                spin(jitter);
                let r = catch_unwind(AssertUnwindSafe(|| v.sync(move |_| boom())));
                oc.lock().unwrap().push(("sync-panicking".into(), r.is_err()));
            }));
        }
        // the panicking job is queued and a sync call of the same thread drains the queue (with a pool the pool may get there first)
        "drain" => {
            handles.push(std::thread::spawn(move || {
                v.desync(move |_| boom());
                spin(jitter);
                let r = catch_unwind(AssertUnwindSafe(|| v.sync(|n| *n)));
                oc.lock().unwrap().push(("sync-draining".into(), r.is_err()));
            }));
        }
        // the panicking operation is a future operation polled by the awaiting task
        "poll" => {
            handles.push(std::thread::spawn(move || {
                for _ in 0..before { plain(&v, &ps, &ra); }
                let f = v.future_desync(move |_| async move { boom(); 1u64 }.boxed());
                spin(jitter);
                let r = catch_unwind(AssertUnwindSafe(|| futures::executor::block_on(f)));
                oc.lock().unwrap().push(("await-panicking".into(), r.is_err()));
            }));
        }
        // a sync caller holds the object, the panicking job is queued behind it, a second sync caller waits: when the first
        // returns, the waiter (or a pool thread) takes the queue over and runs the panicking job
        "steal" => {
            let gate = Arc::new((Mutex::new(false), Condvar::new()));
            let (v1, g1) = (Arc::clone(&v), Arc::clone(&gate));
            let started = Arc::new(AtomicBool::new(false));
            let st1 = Arc::clone(&started);
            handles.push(std::thread::spawn(move || {
                let _ = v1.sync(move |n| { st1.store(true, Ordering::SeqCst); let (m, cv) = &*g1; let mut open = m.lock().unwrap(); while !*open { open = cv.wait(open).unwrap(); } *n });
            }));
            let (v2, st2, g2, oc2) = (v, Arc::clone(&started), Arc::clone(&gate), Arc::clone(&oc));
            handles.push(std::thread::spawn(move || {
                while !st2.load(Ordering::SeqCst) { std::thread::yield_now(); }
                v2.desync(move |_| boom());
                let (v3, oc3) = (Arc::clone(&v2), Arc::clone(&oc2));
                let waiter = std::thread::spawn(move || {
                    let r = catch_unwind(AssertUnwindSafe(|| v3.sync(|n| *n)));
                    oc3.lock().unwrap().push(("sync-waiting".into(), r.is_err()));
                });
                spin(jitter * 50);
                { let (m, cv) = &*g2; *m.lock().unwrap() = true; cv.notify_all(); }
                let _ = waiter.join();
            }));
        }
        // a future operation whose waker fires during the very poll in which it panics (the queue is AwokenWhileRunning, not
        // Running, when the guard sees the panic); detached, so a pool thread runs it, or the caller drains it when there is no pool
        "awoken" => {
            let pool = sc.pool;
            handles.push(std::thread::spawn(move || {
                for _ in 0..before { plain(&v, &ps, &ra); }
                let f = v.future_desync(move |_| future::poll_fn(move |cx| { cx.waker().wake_by_ref(); boom(); std::task::Poll::Ready(1u64) }).boxed());
                drop(f);
                spin(jitter);
                if pool == 0 {
                    let r = catch_unwind(AssertUnwindSafe(|| v.sync(|n| *n)));
                    oc.lock().unwrap().push(("sync-draining".into(), r.is_err()));
                }
            }));
        }
        other => panic!("unknown template {}", other),
    }
    let deadline = Instant::now() + PHASE1_TIMEOUT;
    let mut phase1_hung = false;
    for h in handles {
        while !h.is_finished() && Instant::now() < deadline { std::thread::sleep(Duration::from_micros(200)); }
        if h.is_finished() { let _ = h.join(); } else { phase1_hung = true; }
    }
    if phase1_hung {
        // a sync call made while the panic was still unwinding may legitimately never return (the property speaks of calls made
        // after the unwinding has finished): nothing can be concluded from this execution
        *stats.entry("phase1-blocked (inconclusive)".into()).or_insert(0) += 1;
        return;
    }
    if !panic_started.load(Ordering::SeqCst) {
        // with no pool and nobody draining the queue the panicking job never ran: nothing to check
        *stats.entry("panic-never-ran".into()).or_insert(0) += 1;
        cleanup(&sched);
        return;
    }
    // the barrier: every pool thread that ran a panicking closure has exited
    let want = panicked_on_pool.load(Ordering::SeqCst);
    let deadline = Instant::now() + PROBE_TIMEOUT;
    while vsched::thread::panicked_exits_named() < want {
        if Instant::now() > deadline { fails.push(Fail { what: "a pool thread that ran the panicking closure never exited".into() }); return; }
        std::thread::sleep(Duration::from_micros(200));
    }
    *stats.entry(format!("context-{}", if want > 0 { "pool-thread" } else { "caller" })).or_insert(0) += 1;
    *stats.entry(format!("template-{}", sc.template)).or_insert(0) += 1;
    ran_after_panic.store(0, Ordering::SeqCst);

    // ---------------------------------------------------------------- phase 2: the victim refuses loudly
    let probes: Vec<(&'static str, Box<dyn FnOnce(Arc<Desync<u64>>, Arc<AtomicUsize>) + Send>)> = vec![
        ("desync", Box::new(|v, ra| { v.desync(move |_| { ra.fetch_add(1, Ordering::SeqCst); }); })),
        ("sync", Box::new(|v, ra| { v.sync(move |_| { ra.fetch_add(1, Ordering::SeqCst); }); })),
        ("try_sync", Box::new(|v, ra| { let _ = v.try_sync(move |_| { ra.fetch_add(1, Ordering::SeqCst); }); })),
        ("future_desync", Box::new(|v, ra| { let f = v.future_desync(move |_| async move { ra.fetch_add(1, Ordering::SeqCst); }.boxed()); let _ = futures::executor::block_on(f); })),
        ("future_sync", Box::new(|v, ra| { let v2 = Arc::clone(&v); let _ = futures::executor::block_on(async move { v2.future_sync(move |_| async move { ra.fetch_add(1, Ordering::SeqCst); }.boxed()).await }); })),
    ];
    let first = rng.below(probes.len() as u64) as usize;
    let mut order: Vec<usize> = (0..probes.len()).collect();
    order.rotate_left(first);
    let mut probes: Vec<Option<_>> = probes.into_iter().map(Some).collect();
    for i in order {
        let (name, f) = probes[i].take().unwrap();
        let (v, ra) = (Arc::clone(&victim), Arc::clone(&ran_after_panic));
        match guarded(move || f(v, ra)) {
            Ok(Err(())) => { *stats.entry(format!("refused-{}", name)).or_insert(0) += 1; }
            Ok(Ok(())) => {
                fails.push(Fail { what: format!("{} on the panicked object returned normally instead of panicking (closures run on it since: {})", name, ran_after_panic.load(Ordering::SeqCst)) });
            }
            Err(()) => { fails.push(Fail { what: format!("{} on the panicked object blocked (no return within {} s) instead of panicking", name, PROBE_TIMEOUT.as_secs()) }); return; }
        }
    }
    if ran_after_panic.load(Ordering::SeqCst) != 0 {
        fails.push(Fail { what: format!("{} closure(s) scheduled on the panicked object after the unwinding had finished were run", ran_after_panic.load(Ordering::SeqCst)) });
    }

    // ---------------------------------------------------------------- phase 2: the healthy objects are fully usable
    for (i, h) in healthy.iter().enumerate() {
        let h2 = Arc::clone(h);
        match guarded(move || h2.sync(|n| { *n += 1; *n })) {
            Ok(Ok(_)) => {}
            Ok(Err(())) => fails.push(Fail { what: format!("sync on healthy object {} panicked after another object's operation panicked", i) }),
            Err(()) => { fails.push(Fail { what: format!("sync on healthy object {} blocked after another object's operation panicked", i) }); return; }
        }
    }
    if sc.pool > 0 {
        // the pool runs `pool` blocking jobs at once: each waits until all of them have started
        let n = sc.pool.min(healthy.len());
        let arrived = Arc::new((Mutex::new(0usize), Condvar::new()));
        let (tx, rx) = mpsc::channel();
        for h in healthy.iter().take(n) {
            let (arr, tx) = (Arc::clone(&arrived), tx.clone());
            h.desync(move |_| {
                let (m, cv) = &*arr;
                let mut c = m.lock().unwrap();
                *c += 1;
                cv.notify_all();
                let until = Instant::now() + PROBE_TIMEOUT;
                while *c < n { let left = until.saturating_duration_since(Instant::now()); if left.is_zero() { break; } c = cv.wait_timeout(c, left).unwrap().0; }
                let _ = tx.send(*c >= n);
            });
        }
        let mut ok = 0;
        for _ in 0..n { match rx.recv_timeout(PROBE_TIMEOUT + Duration::from_secs(5)) { Ok(true) => ok += 1, _ => {} } }
        if ok < n {
            fails.push(Fail { what: format!("with a maximum of {} pool threads only {} of {} blocking jobs on healthy objects got to run at the same time after an operation panicked: the pool's capacity was not restored", sc.pool, ok, n) });
            return;
        }
        *stats.entry("capacity-checked".into()).or_insert(0) += 1;
    }
    // a panicked object that is dropped by a thread which is itself unwinding does not panic again (a second panic while
    // unwinding aborts the process: the check treats an aborted probe as a violation) and does not block
    let v = std::mem::ManuallyDrop::into_inner(victim);
    let reached = Arc::new(AtomicBool::new(false));
    let r2 = Arc::clone(&reached);
    match guarded(move || { let _owner = (v, DropFlag(r2)); panic!("unwinding past a panicked Desync"); }) {
        Ok(Err(())) => { if !reached.load(Ordering::SeqCst) { fails.push(Fail { what: "the unwinding thread never finished dropping the panicked object".into() }); } }
        Ok(Ok(())) => unreachable!(),
        Err(()) => { fails.push(Fail { what: "dropping the panicked object while unwinding blocked".into() }); return; }
    }
    drop(healthy);
    cleanup(&sched);
}

fn cleanup(sched: &desync::scheduler::Scheduler) {
    sched.verif_set_max_threads(0);
    sched.despawn_threads_if_overloaded();
}

fn arg<'a>(args: &'a [String], name: &str) -> Option<&'a str> { args.iter().position(|a| a == name).and_then(|i| args.get(i + 1)).map(|s| s.as_str()) }

fn json_str(s: &str) -> String { format!("\"{}\"", s.replace('\\', "\\\\").replace('"', "\\\"").replace('\n', " ")) }

fn main() {
    if std::env::var("PROBE15_VERBOSE").is_err() { std::panic::set_hook(Box::new(|_| {})); }
    let args: Vec<String> = std::env::args().collect();
    let iters: usize = arg(&args, "--iters").and_then(|s| s.parse().ok()).unwrap_or(50);
    let seed: u64 = arg(&args, "--seed").and_then(|s| s.parse().ok()).unwrap_or(1);
    let shard: (usize, usize) = arg(&args, "--shard").and_then(|s| s.split_once('/').map(|(a, b)| (a.parse().unwrap(), b.parse().unwrap()))).unwrap_or((0, 1));
    let only = arg(&args, "--scenario").map(|s| s.to_string());
    let max_fail: usize = arg(&args, "--max-failures").and_then(|s| s.parse().ok()).unwrap_or(5);
    let templates = ["pool", "sync", "drain", "poll", "steal", "awoken"];
    let mut rng = Rng(seed.wrapping_mul(0x9E3779B97F4A7C15) | 1);
    let mut fails_total = 0;
    let mut execs = 0;
    let mut stats = std::collections::BTreeMap::new();
    let mut out = std::io::stdout();
    use std::io::Write;
    for i in 0..iters {
        let sc = Scenario {
            template: templates[rng.below(templates.len() as u64) as usize], pool: rng.below(4) as usize, before: rng.below(3) as usize, after: rng.below(3) as usize,
            healthy: 1 + rng.below(3) as usize, jitter: [0, 1, 10, 100, 1000, 10000][rng.below(6) as usize], seed: rng.next(),
        };
        if i % shard.1 != shard.0 { continue; }
        let sc = match &only {
            Some(text) => {
                let get = |k: &str| text.split_whitespace().find_map(|w| w.strip_prefix(&format!("{}=", k)).map(|v| v.to_string()));
                let t = get("template").unwrap_or_default();
                Scenario { template: templates.iter().copied().find(|x| *x == t).unwrap_or("pool"), pool: get("pool").and_then(|v| v.parse().ok()).unwrap_or(1), before: get("before").and_then(|v| v.parse().ok()).unwrap_or(0),
                           after: get("after").and_then(|v| v.parse().ok()).unwrap_or(0), healthy: get("healthy").and_then(|v| v.parse().ok()).unwrap_or(1), jitter: get("jitter").and_then(|v| v.parse().ok()).unwrap_or(0), seed: sc.seed }
            }
            None => sc,
        };
        let mut fails = vec![];
        execs += 1;
        run_scenario(&sc, &mut fails, &mut stats);
        for f in &fails {
            writeln!(out, "{{\"kind\":\"failure\",\"program_name\":\"c15-{}\",\"program\":{},\"sched\":\"real-threads\",\"seed\":{},\"props\":[\"C15\"],\"what\":{},\"schedule\":\"\"}}", sc.template, json_str(&sc.text()), sc.seed, json_str(&f.what)).unwrap();
            out.flush().unwrap();
        }
        if !fails.is_empty() {
            fails_total += fails.len();
            // a failed scenario may leave blocked threads and a wedged pool behind: stop here
            if fails_total >= max_fail || fails.iter().any(|f| f.what.contains("blocked") || f.what.contains("never exited") || f.what.contains("capacity")) { break; }
        }
    }
    let st: Vec<String> = stats.iter().map(|(k, v)| format!("{}:{}", json_str(k), v)).collect();
    writeln!(out, "{{\"kind\":\"summary\",\"programs\":{},\"executions\":{},\"events\":0,\"failures\":{},\"stats\":{{{}}}}}", execs, execs, fails_total, st.join(",")).unwrap();
    out.flush().unwrap();
    // blocked probe threads must not keep the process alive
    std::process::exit(0);
}
